/-
  SecLang text → compiled rules (C16).
  internal/seclang/parser.go (parseString, evaluateLine, Include), rule_parser.go (ParseRule,
  parseActionOperator, cutQuotedString, ParseVariables, ParseOperator, parseActions,
  appendRuleAction, ParseDefaultActions, mergeActions, applyParsedActions, chain linking),
  internal/strings (MaybeRemoveQuotes, UnescapeQuotedString, HasRegex), the Init functions of the
  actions that write rule metadata, Rule.AddVariable / AddVariableNegation, RuleGroup.Add.

  Result `unm` = outside the model (operator/action whose Init is not modelled, regex key outside
  the class whose validity is decided here, non-ASCII where Go lower-cases by rune).
-/
import Coraza.Base.Lit
import Coraza.Model.Operators
namespace Coraza.Parse
open Coraza

inductive Res (α : Type) where
  | ok (a : α) | err | unm
deriving Repr, DecidableEq

def Res.bind {α β} (r : Res α) (f : α → Res β) : Res β :=
  match r with | .ok a => f a | .err => .err | .unm => .unm
instance : Monad Res where
  pure := .ok
  bind := Res.bind

/-! ## tables (checked against the running binary by the `parse var`/`parse acts` cases) -/


/-- variables.Parse + CanBeSelected: canonical name, selectable -/
def varTable : List (Bytes × Bool) := [
  (b!"ARGS", true), (b!"ARGS_COMBINED_SIZE", false), (b!"ARGS_GET", true), (b!"ARGS_GET_NAMES", true), (b!"ARGS_NAMES", true),
  (b!"ARGS_PATH", true), (b!"ARGS_POST", true), (b!"ARGS_POST_NAMES", true), (b!"AUTH_TYPE", false), (b!"DURATION", false),
  (b!"ENV", true), (b!"FILES", true), (b!"FILES_COMBINED_SIZE", false), (b!"FILES_NAMES", true), (b!"FILES_SIZES", true),
  (b!"FILES_TMPNAMES", true), (b!"FILES_TMP_CONTENT", true), (b!"FULL_REQUEST", false), (b!"FULL_REQUEST_LENGTH", false),
  (b!"GEO", true), (b!"HIGHEST_SEVERITY", false), (b!"INBOUND_DATA_ERROR", false), (b!"IP", false), (b!"JSON", true),
  (b!"MATCHED_VAR", false), (b!"MATCHED_VARS", true), (b!"MATCHED_VARS_NAMES", true), (b!"MATCHED_VAR_NAME", false),
  (b!"MULTIPART_BOUNDARY_QUOTED", false), (b!"MULTIPART_BOUNDARY_WHITESPACE", false), (b!"MULTIPART_CRLF_LF_LINES", false),
  (b!"MULTIPART_DATA_AFTER", false), (b!"MULTIPART_DATA_BEFORE", false), (b!"MULTIPART_FILENAME", true),
  (b!"MULTIPART_FILE_LIMIT_EXCEEDED", false), (b!"MULTIPART_HEADER_FOLDING", false), (b!"MULTIPART_INVALID_HEADER_FOLDING", false),
  (b!"MULTIPART_INVALID_PART", false), (b!"MULTIPART_INVALID_QUOTING", false), (b!"MULTIPART_LF_LINE", false),
  (b!"MULTIPART_MISSING_SEMICOLON", false), (b!"MULTIPART_NAME", true), (b!"MULTIPART_PART_HEADERS", true),
  (b!"MULTIPART_STRICT_ERROR", false), (b!"MULTIPART_UNMATCHED_BOUNDARY", false), (b!"OUTBOUND_DATA_ERROR", false),
  (b!"PATH_INFO", false), (b!"QUERY_STRING", false), (b!"REMOTE_ADDR", false), (b!"REMOTE_HOST", false), (b!"REMOTE_PORT", false),
  (b!"REQBODY_ERROR", false), (b!"REQBODY_ERROR_MSG", false), (b!"REQBODY_PROCESSOR", false), (b!"REQBODY_PROCESSOR_ERROR", false),
  (b!"REQBODY_PROCESSOR_ERROR_MSG", false), (b!"REQUEST_BASENAME", false), (b!"REQUEST_BODY", false), (b!"REQUEST_BODY_LENGTH", false),
  (b!"REQUEST_COOKIES", true), (b!"REQUEST_COOKIES_NAMES", true), (b!"REQUEST_FILENAME", false), (b!"REQUEST_HEADERS", true),
  (b!"REQUEST_HEADERS_NAMES", true), (b!"REQUEST_LINE", false), (b!"REQUEST_METHOD", false), (b!"REQUEST_PROTOCOL", false),
  (b!"REQUEST_URI", false), (b!"REQUEST_URI_RAW", false), (b!"REQUEST_XML", true), (b!"RESPONSE_ARGS", true), (b!"RESPONSE_BODY", false),
  (b!"RESPONSE_CONTENT_LENGTH", false), (b!"RESPONSE_CONTENT_TYPE", false), (b!"RESPONSE_HEADERS", true),
  (b!"RESPONSE_HEADERS_NAMES", true), (b!"RESPONSE_PROTOCOL", false), (b!"RESPONSE_STATUS", false), (b!"RESPONSE_XML", true),
  (b!"RES_BODY_ERROR", false), (b!"RES_BODY_ERROR_MSG", false), (b!"RES_BODY_PROCESSOR", false), (b!"RES_BODY_PROCESSOR_ERROR", false),
  (b!"RES_BODY_PROCESSOR_ERROR_MSG", false), (b!"RULE", true), (b!"SERVER_ADDR", false), (b!"SERVER_NAME", false), (b!"SERVER_PORT", false),
  (b!"SESSIONID", false), (b!"STATUS_LINE", false), (b!"TIME", false), (b!"TIME_DAY", false), (b!"TIME_EPOCH", false), (b!"TIME_HOUR", false),
  (b!"TIME_MIN", false), (b!"TIME_MON", false), (b!"TIME_SEC", false), (b!"TIME_WDAY", false), (b!"TIME_YEAR", false), (b!"TX", true),
  (b!"UNIQUE_ID", false), (b!"UNKNOWN", false), (b!"URLENCODED_ERROR", false), (b!"USERID", false), (b!"XML", true)]

def upper (k : Bytes) : Bytes := k.map asciiUpper
def lower (k : Bytes) : Bytes := k.map asciiLower
def allAscii (k : Bytes) : Bool := k.all (· < 128)

/-- variables.Parse (strings.ToUpper, then table lookup): canonical name and selectability -/
def lookupVar (n : Bytes) : Option (Bytes × Bool) :=
  varTable.find? (fun e => e.1 == upper n)

/-- rule.go:552 caseSensitiveVariable -/
def caseSensitive (v : Bytes) : Bool :=
  v == b!"ARGS" || v == b!"ARGS_NAMES" || v == b!"ARGS_GET" || v == b!"ARGS_POST" || v == b!"ARGS_GET_NAMES" || v == b!"ARGS_POST_NAMES"

/-- action types: 1 metadata, 2 disruptive, 3 data, 4 non-disruptive, 5 flow -/
def actTable : List (Bytes × Nat) := [
  (b!"allow", 2), (b!"auditlog", 4), (b!"block", 2), (b!"capture", 4), (b!"chain", 5), (b!"ctl", 4), (b!"deny", 2), (b!"drop", 2),
  (b!"exec", 4), (b!"expirevar", 4), (b!"id", 1), (b!"initcol", 4), (b!"log", 4), (b!"logdata", 4), (b!"maturity", 1), (b!"msg", 1),
  (b!"multimatch", 4), (b!"noauditlog", 4), (b!"nolog", 4), (b!"pass", 2), (b!"phase", 1), (b!"redirect", 2), (b!"rev", 1),
  (b!"setenv", 4), (b!"setvar", 4), (b!"severity", 1), (b!"skip", 5), (b!"skipafter", 5), (b!"status", 3), (b!"t", 4), (b!"tag", 1), (b!"ver", 1)]

def lookupAct (k : Bytes) : Option (Bytes × Nat) := actTable.find? (fun e => e.1 == k)

/-- registered transformation names (lower case); aliases share one function and the dump shows
    the alphabetically last name of the function -/
def tfTable : List Bytes := [
  b!"base64decode", b!"base64decodeext", b!"base64encode", b!"cmdline", b!"compresswhitespace", b!"cssdecode", b!"escapeseqdecode",
  b!"hexdecode", b!"hexencode", b!"htmlentitydecode", b!"jsdecode", b!"length", b!"lowercase", b!"md5", b!"none", b!"normalisepath",
  b!"normalisepathwin", b!"normalizepath", b!"normalizepathwin", b!"removecomments", b!"removecommentschar", b!"removenulls",
  b!"removewhitespace", b!"replacecomments", b!"replacenulls", b!"sha1", b!"trim", b!"trimleft", b!"trimright", b!"uppercase", b!"urldecode",
  b!"urldecodeuni", b!"urlencode", b!"utf8tounicode"]

def tfCanon (n : Bytes) : Bytes :=
  if n == b!"normalisepath" then b!"normalizepath" else if n == b!"normalisepathwin" then b!"normalizepathwin" else n

/-- operators whose factory accepts every argument (so ParseOperator succeeds); exact-case names -/
def safeOps : List Bytes := [b!"streq", b!"contains", b!"beginsWith", b!"endsWith", b!"within", b!"pm", b!"strmatch",
  b!"unconditionalMatch", b!"noMatch", b!"eq", b!"ge", b!"gt", b!"le", b!"lt"]

/-! ## white space, lines, logical lines (parser.go:101 parseString) -/

def isSp (b : UInt8) : Bool := b == 0x20 || (0x09 ≤ b && b ≤ 0x0d)

/-- UTF-8 encodings of the non-ASCII runes for which unicode.IsSpace holds -/
def uniSpaces : List Bytes := [[0xC2, 0x85], [0xC2, 0xA0], [0xE1, 0x9A, 0x80],
  [0xE2, 0x80, 0x80], [0xE2, 0x80, 0x81], [0xE2, 0x80, 0x82], [0xE2, 0x80, 0x83], [0xE2, 0x80, 0x84], [0xE2, 0x80, 0x85],
  [0xE2, 0x80, 0x86], [0xE2, 0x80, 0x87], [0xE2, 0x80, 0x88], [0xE2, 0x80, 0x89], [0xE2, 0x80, 0x8A],
  [0xE2, 0x80, 0xA8], [0xE2, 0x80, 0xA9], [0xE2, 0x80, 0xAF], [0xE2, 0x81, 0x9F], [0xE3, 0x80, 0x80]]

/-- length of the white-space rune at the head of the list (0 = none) -/
def spLen (pats : List Bytes) (l : Bytes) : Nat :=
  match l with
  | [] => 0
  | b :: _ => if isSp b then 1 else
    match pats.find? (fun p => p.isPrefixOf l) with
    | some p => p.length
    | none => 0

def trimLeftAux (pats : List Bytes) : Nat → Bytes → Bytes
  | 0, l => l
  | n + 1, l => if spLen pats l == 0 then l else trimLeftAux pats n (l.drop (spLen pats l))

/-- strings.TrimLeftFunc(s, unicode.IsSpace) -/
def trimLeft (l : Bytes) : Bytes := trimLeftAux uniSpaces l.length l
/-- strings.TrimRightFunc(s, unicode.IsSpace) -/
def trimRight (l : Bytes) : Bytes := (trimLeftAux (uniSpaces.map List.reverse) l.length l.reverse).reverse
/-- strings.TrimSpace -/
def trimSpace (l : Bytes) : Bytes := trimRight (trimLeft l)

/-- split on '\n' (bufio.ScanLines; the trailing '\r' it drops is white space anyway) -/
def splitLines : Bytes → Bytes → List Bytes
  | [], cur => [cur.reverse]
  | b :: t, cur => if b == 0x0a then cur.reverse :: splitLines t [] else splitLines t (b :: cur)

/-- one physical line of parseString: new backtick flag, new line buffer, and the logical line
    handed to evaluateLine (if this line completes one) -/
def lineStep (bt : Bool) (buf raw : Bytes) : Bool × Bytes × Option Bytes :=
  let line := trimSpace raw
  match line, line.getLast? with
  | [], _ => (bt, buf, none)
  | _, none => (bt, buf, none)
  | first :: _, some last =>
    if first == 0x23 then (bt, buf, none)                         -- '#': comment, in any circumstances
    else
      let bt' := if !bt && last == 0x60 then true else if bt && first == 0x60 then false else bt
      if bt' then (true, buf ++ line ++ [0x0a], none)
      else if last == 0x5c then (false, buf ++ line.dropLast, none)
      else (false, [], some (buf ++ line))

/-- the logical lines parseString hands to evaluateLine, in order, the backtick flag and the line
    buffer at the end of the input -/
def assemble : Bool → Bytes → List Bytes → List Bytes × Bool × Bytes
  | bt, buf, [] => ([], bt, buf)
  | bt, buf, raw :: rest =>
    match lineStep bt buf raw with
    | (bt', buf', none) => assemble bt' buf' rest
    | (bt', buf', some l) =>
      let r := assemble bt' buf' rest
      (l :: r.1, r.2.1, r.2.2)

/-- (logical lines, backticks left open?, text still pending in the line buffer at end of input) -/
def logicalLines (data : Bytes) : List Bytes × Bool × Bytes := assemble false [] (splitLines data [])

/-! ## evaluateLine (parser.go:149) -/

/-- strings.Cut(s, " ") -/
def cutSpace : Bytes → Bytes × Bytes × Bool
  | [] => ([], [], false)
  | b :: t => if b == 0x20 then ([], t, true) else let (a, r, f) := cutSpace t; (b :: a, r, f)

def dropWhileQ : Bytes → Bytes
  | [] => []
  | b :: t => if b == 0x22 then dropWhileQ t else b :: t

/-- strings.Trim(s, `"`) -/
def trimQuotes (l : Bytes) : Bytes := (dropWhileQ (dropWhileQ l).reverse).reverse

/-- directive (lower-cased) and options of a logical line -/
def splitDirective (l : Bytes) : Bytes × Bytes :=
  let (dir, opts, _) := cutSpace l
  let opts := if opts.length ≥ 3 && opts.head? == some 0x22 && opts.getLast? == some 0x22 then (opts.drop 1).dropLast else opts
  (lower dir, opts)

/-! ## quote helpers (internal/strings) -/

/-- MaybeRemoveQuotes -/
def maybeRemoveQuotes (s : Bytes) : Bytes :=
  if s.length < 2 then s
  else match s.head?, s.getLast? with
    | some 0x22, some l => if l == 0x22 then (s.drop 1).dropLast else s
    | some 0x27, some l => if l == 0x27 then (s.drop 1).dropLast else s
    | _, _ => s

/-- UnescapeQuotedString: `\"` → `"`, everything else kept -/
def unescapeQuoted : Bytes → Bytes
  | [] => []
  | [b] => [b]
  | b :: c :: t => if b == 0x5c && c == 0x22 then 0x22 :: unescapeQuoted t else b :: unescapeQuoted (c :: t)

/- HasRegex (internal/strings/strings.go:137) is `Coraza.hasRegex` in Base/Bytes.lean (shared with the engine model) -/

/-! ## cutQuotedString, parseActionOperator (rule_parser.go:451, :486) -/

/-- scan after the opening quote: (quoted part without the opening quote incl. closing quote, rest) -/
def cutQuotedAux : Bytes → Nat → Bytes → Option (Bytes × Bytes)
  | [], _, _ => none
  | b :: t, esc, acc =>
    if b != 0x22 then cutQuotedAux t (if b == 0x5c then esc + 1 else 0) (b :: acc)
    else if esc % 2 == 1 then cutQuotedAux t 0 (b :: acc)
    else some ((b :: acc).reverse, t)

def cutQuotedString (s : Bytes) : Option (Bytes × Bytes) :=
  match s with
  | 0x22 :: t => match cutQuotedAux t 0 [] with
    | some (q, rest) => some (0x22 :: q, rest)
    | none => none
  | _ => none

def trimLeftSp : Bytes → Bytes
  | [] => []
  | b :: t => if b == 0x20 then trimLeftSp t else b :: t

/-- strings.Trim(s, " ") -/
def trimSp (l : Bytes) : Bytes := (trimLeftSp (trimLeftSp l).reverse).reverse

/-- parseActionOperator: (targets, operator, actions) -/
def parseActionOperator (data : Bytes) : Option (Bytes × Bytes × Bytes) :=
  let data := trimSp data
  let (vars, rest, found) := cutSpace data
  if !found then none
  else
    let rest := trimLeftSp rest
    match cutQuotedString rest with
    | none => none
    | some (q, rest) =>
      let op := unescapeQuoted (maybeRemoveQuotes q)
      let rest := trimLeftSp rest
      if rest.isEmpty then some (vars, op, [])
      else if rest.length < 2 || rest.head? != some 0x22 || rest.getLast? != some 0x22 then none
      else some (vars, op, maybeRemoveQuotes rest)

/-! ## ParseVariables (rule_parser.go:42) -/

inductive TOp where
  | add (name : Bytes) (key : Bytes) (count : Bool)
  | neg (name : Bytes) (key : Bytes)
deriving Repr, DecidableEq

structure VS where
  curr : Nat := 0
  neg : Bool := false
  cnt : Bool := false
  var : Bytes := []       -- reversed
  key : Bytes := []       -- reversed
  esc : Bool := false
  quoted : Bool := false
deriving Repr, DecidableEq

/-- the scanner; `skip` = bytes still to be jumped over (`i++`, `i += 2`) -/
def pvAux : Bytes → Nat → VS → List TOp → Option (List TOp)
  | [], _, _, acc => some acc.reverse
  | c :: rest, skip, s, acc =>
    if skip > 0 then pvAux rest (skip - 1) s acc
    else
      let last := rest.isEmpty
      if (c == 0x7c && s.curr != 2) || last || (s.curr == 2 && c == 0x2f && !s.esc) then
        -- the input ended inside a regex, or on the byte that would have started one
        if (s.curr == 2 && (c != 0x2f || s.esc)) || (s.curr == 1 && s.key.isEmpty && (c == 0x2f || c == 0x27)) then none
        else if c == 0x7c && last then none                       -- nothing after the last separator
        else
        let (var, key) :=
          if c != 0x7c then
            (if s.curr == 0 then (c :: s.var, s.key)
             else if s.curr != 2 then (s.var, c :: s.key)
             else (s.var, s.key))
          else (s.var, s.key)
        if s.curr == 1 && key.isEmpty then none
        else
        let name := var.reverse
        match lookupVar name with
        | none => none
        | some (_, sel) =>
          if s.curr == 1 && !sel then none
          else if s.quoted && (s.curr != 2 || rest.head? != some 0x27) then none
          else if s.quoted && (match rest.drop 1 with | [] => false | [_] => true | x :: _ => x != 0x7c) then none
          else if !s.quoted && s.curr == 2 && (match rest with | [] => false | [_] => true | x :: _ => x != 0x7c) then none
          else
            let skip' := if s.quoted then 2 else if s.curr == 2 then 1 else 0
            let k := key.reverse
            let k := if s.curr == 2 then [0x2f] ++ k ++ [0x2f] else k
            let op := if s.neg then TOp.neg name k else TOp.add name k s.cnt
            pvAux rest skip' {} (op :: acc)
      else
        match s.curr with
        | 0 =>
          if c == 0x21 || c == 0x26 then
            (if !s.var.isEmpty || s.neg || s.cnt then none
             else if c == 0x21 then pvAux rest 0 { s with neg := true } acc
             else pvAux rest 0 { s with cnt := true } acc)
          else if c == 0x3a then pvAux rest 0 { s with curr := 1 } acc
          else pvAux rest 0 { s with var := c :: s.var } acc
        | 1 =>
          if s.key.isEmpty && (s.var.reverse == b!"XML" || s.var.reverse == b!"JSON") then
            pvAux rest 0 { s with curr := 3, key := c :: s.key } acc
          else if c == 0x2f && s.key.isEmpty then pvAux rest 0 { s with curr := 2 } acc
          else if c == 0x27 && s.key.isEmpty then
            (if s.quoted || rest.head? != some 0x2f then none else pvAux rest 0 { s with quoted := true } acc)
          else pvAux rest 0 { s with key := c :: s.key } acc
        | 2 =>
          -- (an unescaped '/' was handled above)
          if c == 0x2f && !s.esc then pvAux rest 0 { s with curr := 1 } acc
          else if c == 0x5c then pvAux rest 0 { s with key := 0x5c :: s.key, esc := !s.esc } acc
          else pvAux rest 0 { s with key := c :: s.key, esc := false } acc
        | _ => pvAux rest 0 { s with key := c :: s.key } acc

def parseVariables (vars : Bytes) : Option (List TOp) := pvAux vars 0 {} []

/-! ## targets as stored in the rule (rule.go AddVariable / AddVariableNegation) -/

structure Exc where
  key : Bytes
  rx : Option Bytes
deriving Repr, DecidableEq

structure Target where
  var : Bytes
  count : Bool
  key : Bytes
  rx : Option Bytes
  excs : List Exc := []
deriving Repr, DecidableEq

/-- regex keys whose compilation is decided here: letters, digits, `_ - . |`, the escapes `\/ \. \\`,
    `^` first, `$` last — all valid RE2; anything else is outside the model -/
def rxSafeBody : Bytes → Bool
  | [] => true
  | [b] => b == 0x24 || (b.toNat ≥ 48 && b.toNat ≤ 57) || (b.toNat ≥ 65 && b.toNat ≤ 90) || (b.toNat ≥ 97 && b.toNat ≤ 122)
            || b == 0x5f || b == 0x2d || b == 0x2e || b == 0x7c
  | b :: c :: t =>
    if b == 0x5c then (c == 0x2f || c == 0x2e || c == 0x5c) && rxSafeBody t
    else ((b.toNat ≥ 48 && b.toNat ≤ 57) || (b.toNat ≥ 65 && b.toNat ≤ 90) || (b.toNat ≥ 97 && b.toNat ≤ 122)
            || b == 0x5f || b == 0x2d || b == 0x2e || b == 0x7c) && rxSafeBody (c :: t)

def rxSafe (r : Bytes) : Bool :=
  match r with
  | 0x5e :: t => rxSafeBody t
  | _ => rxSafeBody r

/-- the regex (as compiled) of a key, `unm` if its validity is not decided here -/
def keyRegex (v : Bytes) (key : Bytes) : Res (Option Bytes) :=
  match hasRegex key with
  | none => .ok none
  | some rx =>
    let rx := if caseSensitive v then rx else lower rx
    if !allAscii rx then .unm
    else if rxSafe rx then .ok (some rx) else .unm

def applyTOp (ts : List Target) (op : TOp) : Res (List Target) :=
  match op with
  | .add name key cnt =>
    match lookupVar name with
    | none => .err
    | some (v, _) => do
      let rx ← keyRegex v key
      if !caseSensitive v && !allAscii key then .unm
      else
        let k := if caseSensitive v then key else lower key
        pure (ts ++ [{ var := v, count := cnt, key := k, rx := rx }])
  | .neg name key =>
    match lookupVar name with
    | none => .err
    | some (v, _) => do
      let rx ← keyRegex v key
      pure (ts.map (fun t => if t.var == v then { t with excs := t.excs ++ [{ key := key, rx := rx }] } else t))

def applyTOps : List Target → List TOp → Res (List Target)
  | ts, [] => .ok ts
  | ts, op :: ops => do let ts' ← applyTOp ts op; applyTOps ts' ops

/-! ## ParseOperator (rule_parser.go:163) -/

def hasMacro : Bytes → Bool
  | [] => false
  | [_] => false
  | a :: b :: t => (a == 0x25 && b == 0x7b) || hasMacro (b :: t)


structure Op where
  fn : Bytes        -- operator token as written (with `!`, `@`)
  data : Bytes
  neg : Bool
deriving Repr, DecidableEq

def parseOperator (operator : Bytes) : Res Op :=
  let operator :=
    match operator with
    | [] => b!"@rx "
    | [0x21] => b!"!@rx"
    | c :: d :: t =>
      if c != 0x40 && c != 0x21 then b!"@rx " ++ operator
      else if c == 0x21 && d != 0x40 then b!"!@rx " ++ (d :: t)
      else operator
    | [c] => if c != 0x40 && c != 0x21 then b!"@rx " ++ operator else operator
  let (opRaw, dataRaw, _) := cutSpace operator
  let op := trimSpace opRaw
  let data := trimSpace dataRaw
  match op with
  | [] => .unm      -- op[0] on an empty string: index out of range in Go (C07 territory)
  | c :: t =>
    let name := if c == 0x40 then t else if op.length > 2 && c == 0x21 && t.head? == some 0x40 then t.drop 1 else op
    if data.isEmpty || hasMacro data then .unm    -- several factories reject an empty argument; macros are compiled
    else if safeOps.any (fun o => o == name) then
      .ok { fn := opRaw, data := data, neg := opRaw.head? == some 0x21 }
    else .unm

/-! ## parseActions / appendRuleAction (rule_parser.go:540, :607) -/

structure Act where
  key : Bytes
  val : Bytes
  typ : Nat
deriving Repr, DecidableEq

/-- append with the "last disruptive action replaces the earlier one" rule; `none` = unknown action -/
def appendAct (res : List Act) (key val : Bytes) (didx : Option Nat) : Option (List Act × Option Nat) :=
  let key := lower (trimSpace key)
  let val := maybeRemoveQuotes (trimSpace val)
  if !allAscii key then none     -- strings.ToLower on non-ASCII: no registered action has such a name
  else match lookupAct key with
  | none => none
  | some (_, typ) =>
    let a : Act := { key := key, val := val, typ := typ }
    match typ == 2, didx with
    | true, some i => some (res.set i a, some i)
    | true, none => some (res ++ [a], some res.length)
    | false, _ => some (res ++ [a], didx)

structure AS where
  beforeKey : Option Nat := none     -- index of the separator before the key (none = -1)
  afterKey : Option Nat := none      -- index of the ':' after the key
  inQuotes : Bool := false
  didx : Option Nat := none
  res : List Act := []

def sliceB (s : Bytes) (a b : Nat) : Bytes := (s.take b).drop a

/-- the loop over i = 1 … len-1; `prev` = actions[i-1] -/
def paAux (all : Bytes) : Bytes → Nat → UInt8 → AS → Option AS
  | [], _, _, st => some st
  | c :: rest, i, prev, st =>
    if prev == 0x5c then paAux all rest (i + 1) c st
    else if c == 0x27 then paAux all rest (i + 1) c { st with inQuotes := !st.inQuotes }
    else if st.inQuotes then paAux all rest (i + 1) c st
    else if c == 0x3a then
      (match st.afterKey with
       | some _ => paAux all rest (i + 1) c st
       | none => paAux all rest (i + 1) c { st with afterKey := some i })
    else if c == 0x2c then
      let start := match st.beforeKey with | none => 0 | some b => b + 1
      let (keyEnd, val) := match st.afterKey with
        | none => (i, ([] : Bytes))
        | some a => (a, sliceB all (a + 1) i)
      match appendAct st.res (sliceB all start keyEnd) val st.didx with
      | none => none
      | some (res, didx) => paAux all rest (i + 1) c { st with res := res, didx := didx, beforeKey := some i, afterKey := none }
    else paAux all rest (i + 1) c st

def parseActions (actions : Bytes) : Option (List Act) :=
  match actions with
  | [] =>
    -- the loop does not run; key = actions[0:0] = ""
    (appendAct [] [] [] none).map (·.1)
  | c0 :: rest =>
    match paAux actions rest 1 c0 {} with
    | none => none
    | some st =>
      let start := match st.beforeKey with | none => 0 | some b => b + 1
      let (keyEnd, val) := match st.afterKey with
        | none => (actions.length, ([] : Bytes))
        | some a => (a, actions.drop (a + 1))
      (appendAct st.res (sliceB actions start keyEnd) val st.didx).map (·.1)

/-! ## the rule being compiled -/

structure RuleB where
  id : Int := 0
  phase : Nat := 2
  targets : List Target := []
  op : Option Op := none
  acts : List Bytes := []
  tfs : List Bytes := []
  msg : Bytes := []
  logdata : Bytes := []
  tags : List Bytes := []
  sev : Int := -1
  rev : Bytes := []
  ver : Bytes := []
  mat : Int := 0
  status : Int := 0
  cap : Bool := false
  mm : Bool := false
  log : Bool := false
  audit : Bool := false
  hasChain : Bool := false
deriving Repr, DecidableEq

structure CRule where
  head : RuleB
  links : List RuleB := []
  marker : Bool := false
deriving Repr, DecidableEq

/-- types.ParseRulePhase -/
def parsePhase (v : Bytes) : Option Nat :=
  if v == b!"request" then some 2 else if v == b!"response" then some 4 else if v == b!"logging" then some 5
  else match Coraza.Op.atoiStrict v with
    | some n => if n ≥ 1 ∧ n ≤ 5 then some n.toNat else none
    | none => none

/-- types.ParseRuleSeverity -/
def parseSeverity (v : Bytes) : Option Int :=
  if v.length == 1 then
    match Coraza.Op.atoiStrict v with
    | some n => if n ≥ 0 ∧ n ≤ 7 then some n else none
    | none => none
  else if !allAscii v then none
  else
    let l := lower v
    ([b!"emergency", b!"alert", b!"critical", b!"error", b!"warning", b!"notice", b!"info", b!"debug"].findIdx? (fun s => s == l)).map Int.ofNat

/-- Init of a metadata action (type 1) -/
def initMeta (r : RuleB) (a : Act) : Res RuleB :=
  let k := a.key
  let v := a.val
  if k == b!"id" then
    (if v.isEmpty then .err else match Coraza.Op.atoiStrict v with
      | some n => if n ≤ 0 then .err else .ok { r with id := n }
      | none => .err)
  else if k == b!"phase" then
    (if v.isEmpty then .err else match parsePhase v with | some p => .ok { r with phase := p } | none => .err)
  else if k == b!"msg" then
    let v := maybeRemoveQuotes v
    (if v.isEmpty then .err else if hasMacro v then .unm else .ok { r with msg := v })
  else if k == b!"tag" then (if v.isEmpty then .err else .ok { r with tags := r.tags ++ [v] })
  else if k == b!"severity" then
    (if v.isEmpty then .err else match parseSeverity v with | some s => .ok { r with sev := s } | none => .err)
  else if k == b!"rev" then (if v.isEmpty then .err else .ok { r with rev := v })
  else if k == b!"ver" then (if v.isEmpty then .err else .ok { r with ver := v })
  else if k == b!"maturity" then
    (match Coraza.Op.atoiStrict v with
      | some n => if n < 1 ∨ n > 9 then .err else .ok { r with mat := n }
      | none => .err)
  else .unm

def noArg (r : RuleB) (v : Bytes) (f : RuleB → RuleB) : Res RuleB := if v.isEmpty then .ok (f r) else .err

/-- Init of a non-metadata action, then AddAction -/
def initOther (r : RuleB) (a : Act) : Res RuleB :=
  let k := a.key
  let v := a.val
  let added (r : RuleB) : RuleB := { r with acts := r.acts ++ [k] }
  (if k == b!"log" then noArg r v (fun r => { r with log := true, audit := true })
   else if k == b!"nolog" then noArg r v (fun r => { r with log := false, audit := false })
   else if k == b!"auditlog" then noArg r v (fun r => { r with audit := true })
   else if k == b!"noauditlog" then noArg r v (fun r => { r with audit := false })
   else if k == b!"pass" || k == b!"deny" || k == b!"drop" || k == b!"block" then noArg r v id
   else if k == b!"capture" then noArg r v (fun r => { r with cap := true })
   else if k == b!"chain" then noArg r v (fun r => { r with hasChain := true })
   else if k == b!"multimatch" then noArg r v (fun r => { r with mm := true })
   else if k == b!"allow" then
     (if v.isEmpty || v == b!"phase" || v == b!"request" then .ok r else .err)
   else if k == b!"redirect" then (if v.isEmpty then .err else .ok r)
   else if k == b!"logdata" then
     (if v.isEmpty then .err else if hasMacro v then .unm else .ok { r with logdata := v })
   else if k == b!"status" then
     (if v.isEmpty then .err else match Coraza.Op.atoiStrict v with | some n => .ok { r with status := n } | none => .err)
   else if k == b!"skip" then
     (if v.isEmpty then .err else match Coraza.Op.atoiStrict v with | some n => if n < 1 then .err else .ok r | none => .err)
   else if k == b!"skipafter" then (if (maybeRemoveQuotes v).isEmpty then .err else .ok r)
   else if k == b!"t" then
     (if v == b!"none" then .ok { r with tfs := [] }
      else if !allAscii v then .unm
      else match tfTable.find? (fun n => n == lower v) with
        | some n => if n == b!"none" then .unm else .ok { r with tfs := r.tfs ++ [tfCanon n] }
        | none => .err)
   else (.unm : Res RuleB)).bind (fun r => .ok (added r))

/-- rule_parser.go:229 ParseDefaultActions for one SecDefaultAction string: (phase, actions) -/
def parseDefault (s : Bytes) : Option (Nat × List Act) :=
  match parseActions s with
  | none => none
  | some acts =>
    let rec go : List Act → Nat → Bool → Option (Nat × Bool)
      | [], ph, d => some (ph, d)
      | a :: t, ph, d =>
        if a.key == b!"phase" then (match parsePhase a.val with | some p => go t p d | none => none)
        else if a.typ == 1 then none
        else if a.key == b!"t" then none
        else go t ph (d || a.typ == 2)
    match go acts 0 false with
    | some (ph, d) => if ph == 0 || !d then none else some (ph, acts)
    | none => none

/-- all SecDefaultAction strings seen so far, re-parsed for every rule; the hard-coded phase-2
    default is added when none was given -/
def buildDefaults : List Bytes → List (Nat × List Act) → Option (List (Nat × List Act))
  | [], acc =>
    if acc.any (·.1 == 2) then some acc
    else match parseDefault (b!"phase:2,log,auditlog,pass") with
      | some d => some (acc ++ [d])
      | none => none
  | s :: t, acc =>
    match parseDefault s with
    | none => none
    | some (ph, acts) => if acc.any (·.1 == ph) then none else buildDefaults t (acc ++ [(ph, acts)])

/-- rule_parser.go:648 mergeActions -/
def mergeActions (origin defaults : List Act) : List Act :=
  let da := (defaults.filter (·.typ == 2)).getLast?
  let res := defaults.filter (fun a => a.typ != 2 && a.typ != 1)
  let res := res ++ origin.filter (fun a => !(a.typ == 2 && a.key == b!"block"))
  let hasDa := origin.any (fun a => a.typ == 2 && a.key != b!"block")
  if hasDa then res else match da with
    | some d => res ++ [d]
    | none => res ++ [{ key := [], val := [], typ := 0 }]    -- the zero ruleAction: nil F (Go would panic)

def foldRes {α β} (f : α → β → Res α) : α → List β → Res α
  | a, [] => .ok a
  | a, b :: t => (f a b).bind (fun a' => foldRes f a' t)

/-- rule_parser.go:290 applyParsedActions -/
def applyActions (r : RuleB) (acts : List Act) (defaults : List (Nat × List Act)) : Res RuleB := do
  let r ← foldRes initMeta r (acts.filter (·.typ == 1))
  let acts := match defaults.find? (·.1 == r.phase) with
    | some (_, d) => mergeActions acts d
    | none => acts
  if acts.any (·.typ == 0) then .unm
  else foldRes initOther r (acts.filter (·.typ != 1))

/-- ParseRule up to the chain logic: the compiled body and the raw action text -/
def compileRule (withOp : Bool) (data : Bytes) (defaultsRaw : List Bytes) : Res (RuleB × Bytes) :=
  if (trimSpace data).isEmpty then .err
  else match buildDefaults defaultsRaw [] with
  | none => .err
  | some defaults =>
    if withOp then
      match parseActionOperator data with
      | none => .err
      | some (vars, op, acts) =>
        match parseVariables vars with
        | none => .err
        | some tops => do
          let ts ← applyTOps [] tops
          let o ← parseOperator op
          let r : RuleB := { targets := ts, op := some o }
          if acts.isEmpty then pure (r, acts)
          else match parseActions acts with
            | none => .err
            | some as => do
              let r ← applyActions r as defaults
              pure (r, acts)
    else
      let acts := maybeRemoveQuotes data
      match parseActions acts with
      | none => .err
      | some as => do
        let r ← applyActions {} as defaults
        pure (r, acts)

/-! ## the configuration -/

structure Cfg where
  rules : List CRule := []
  defaults : List Bytes := []
  includes : Nat := 0
deriving Repr, DecidableEq

/-- getLastRuleExpectingChain: the last rule, if the end of its chain still has `chain` set -/
def expectingChain (c : Cfg) : Bool :=
  match c.rules.getLast? with
  | none => false
  | some r => if r.marker then false else match r.links.getLast? with
    | some l => l.hasChain
    | none => r.head.hasChain

def addRule (c : Cfg) (r : RuleB) (raw : Bytes) : Res Cfg :=
  if expectingChain c then
    -- disruptive actions are not allowed in chained rules
    let disruptive := match parseActions raw with
      | some as => as.any (·.typ == 2)
      | none => false
    if disruptive then .err     -- (the pending chain is discarded; the configuration is rejected anyway)
    else
      match c.rules.getLast? with
      | none => .err
      | some last => .ok { c with rules := c.rules.dropLast ++ [{ last with links := last.links ++ [{ r with phase := 0 }] }] }
  else
    if r.id != 0 && c.rules.any (fun x => !x.marker && x.head.id == r.id) then .err
    else .ok { c with rules := c.rules ++ [{ head := r }] }

/-- one directive; `files` = what Include can read; `fuel` bounds Include nesting -/
def evalDirective (dir opts : Bytes) (c : Cfg) : Res Cfg :=
  if dir == b!"secrule" then
    (if opts.isEmpty then .err else (compileRule true opts c.defaults).bind (fun (r, raw) => addRule c r raw))
  else if dir == b!"secaction" then
    (if opts.isEmpty then .err else (compileRule false opts c.defaults).bind (fun (r, raw) => addRule c r raw))
  else if dir == b!"secmarker" then
    (if opts.isEmpty then .err else .ok { c with rules := c.rules ++ [{ head := { id := 0, phase := 0 }, marker := true }] })
  else if dir == b!"secdefaultaction" then
    (if opts.isEmpty then .err else .ok { c with defaults := c.defaults ++ [opts] })
  else if dir == b!"secruleengine" then
    (if opts == b!"On" || opts == b!"Off" || opts == b!"DetectionOnly" then .ok c else .unm)
  else if !allAscii dir then .unm
  else if [b!"secrule", b!"secaction", b!"secmarker", b!"secdefaultaction", b!"include"].contains dir then .unm
  else .unm

def maxInclude : Nat := 100

mutual
/-- parseString on `data` -/
def parseText (files : List (Bytes × Bytes)) : Nat → Bytes → Cfg → Res Cfg
  | 0, _, _ => .unm
  | fuel + 1, data, c =>
    let (ls, openBT, pending) := logicalLines data
    (evalLines files fuel ls c).bind (fun c =>
      if openBT then .err
      else if pending.isEmpty then .ok c
      else evalLines files fuel [pending] c)      -- the input ended on a continuation line
def evalLines (files : List (Bytes × Bytes)) : Nat → List Bytes → Cfg → Res Cfg
  | _, [], c => .ok c
  | fuel, l :: ls, c =>
    if l.isEmpty || l.head? == some 0x23 then .err
    else
      let (dir, opts) := splitDirective l
      let r : Res Cfg :=
        if dir == b!"include" then
          (if c.includes ≥ maxInclude then .err
           else match files.find? (·.1 == opts) with
             | none => .err
             | some (_, content) => parseText files fuel content { c with includes := c.includes + 1 })
        else evalDirective dir opts c
      r.bind (fun c => evalLines files fuel ls c)
end

def parseConfig (files : List (Bytes × Bytes)) (data : Bytes) : Res Cfg := parseText files 200 data {}

end Coraza.Parse
