/-
  Executable model of body buffering (C10):
    internal/corazawaf/body_buffer.go  (BodyBuffer.Write / Reader / Read)
    internal/corazawaf/transaction.go:918-1060, 1195-1314 (Write*Body, Read*BodyFrom)
    and the hand-off to Process{Request,Response}Body.
  Sizes are `Nat`: `Validate` bounds limits by 1 GiB so the int64 overflow guards of
  transaction.go:944/1011 are unreachable (recorded as an assumption).
-/
import Coraza.Base.Bytes
namespace Coraza.Body
open Coraza

/-- body_buffer.go:17 BodyBuffer -/
structure BB where
  limit : Nat
  memLimit : Nat
  mem : Bytes            -- bytes.Buffer
  file : Option Bytes    -- temp file content once spilled
  length : Nat
deriving Repr, DecidableEq

/-- what every reader sees (body_buffer.go:82 Read: file if present, else memory) -/
def BB.content (b : BB) : Bytes := match b.file with | some f => f | none => b.mem

/-- body_buffer.go:48 Write; `none` = error return -/
def BB.write (b : BB) (d : Bytes) : Option BB :=
  if d.isEmpty then some b
  else if b.length + d.length > b.limit then none            -- "limit reached while writing"
  else
    let target := b.length + d.length
    if target > b.memLimit then
      match b.file with
      | none => some { b with file := some (b.mem ++ d), mem := [], length := target }
      | some f => some { b with file := some (f ++ d), length := target }
    else some { b with mem := b.mem ++ d, length := target }

/-- bodyBufferReader.Read with a caller buffer of size `p` at position `pos`:
    returns the bytes delivered (empty = EOF). -/
def readAt (c : Bytes) (pos p : Nat) : Bytes := (c.drop pos).take p

/-- read until EOF with the given sequence of buffer sizes (all positive) -/
def readLoop (c : Bytes) : Nat → List Nat → Bytes
  | _, [] => []
  | pos, p :: ps =>
    let got := readAt c pos p
    if got.isEmpty then [] else got ++ readLoop c (pos + got.length) ps

inductive Side | req | resp deriving Repr, DecidableEq

/-- the part of Transaction that the body entry points touch -/
structure St where
  side : Side
  bb : BB
  limit : Nat             -- tx.RequestBodyLimit / tx.ResponseBodyLimit
  reject : Bool           -- limit action: Reject (true) or ProcessPartial (false)
  intr : Option Nat       -- interruption status
  dataErr : Bool          -- INBOUND_DATA_ERROR / OUTBOUND_DATA_ERROR
  phaseReady : Bool       -- lastPhase = headers phase of this side (body phase may run)
  bodyRuns : Nat          -- evaluations of the body phase of this side
  bodyVar : Option Bytes  -- REQUEST_BODY (raw/urlencoded processor) / RESPONSE_BODY
deriving Repr, DecidableEq

def rejectStatus : Side → Nat | .req => 413 | .resp => 500

/-- setAndReturnBodyLimitInterruption (transaction.go:906): an interruption already in place is
    kept; otherwise deny with 413/500 (through Transaction.Interrupt, engine On here) -/
def limitIntr (intr : Option Nat) (side : Side) : Option Nat :=
  match intr with
  | some i => some i
  | none => some (rejectStatus side)

/-- ProcessRequestBody (1062) / ProcessResponseBody (1316), restricted to what they do
    with the buffer: guard order, body variable, one evaluation of the body phase. -/
def processBody (s : St) : St :=
  if s.intr.isSome then s
  else if !s.phaseReady then s
  else
    match s.side with
    | .req =>
      if s.bb.length == 0 then { s with phaseReady := false, bodyRuns := s.bodyRuns + 1 }
      else { s with phaseReady := false, bodyRuns := s.bodyRuns + 1, bodyVar := some s.bb.content }
    | .resp => { s with phaseReady := false, bodyRuns := s.bodyRuns + 1, bodyVar := some s.bb.content }

inductive Wr
  | slice (d : Bytes)      -- WriteRequestBody / WriteResponseBody
  | known (d : Bytes)      -- Read*BodyFrom with a reader that has Len()
  | unknown (d : Bytes)    -- Read*BodyFrom with a plain io.Reader
deriving Repr, DecidableEq

/-- observation of one write: (returned interruption status, n, error?) -/
structure WObs where
  intr : Option Nat
  n : Nat
  err : Bool
deriving Repr, DecidableEq

/-- transaction.go:918 / 1195 -/
def writeSlice (s : St) (d : Bytes) : St × WObs :=
  if s.limit == s.bb.length then
    (s, ⟨if s.reject then s.intr else none, 0, false⟩)
  else
    if s.bb.length + d.length ≥ s.limit then
      let s := { s with dataErr := true }
      if s.reject then
        let s := { s with intr := limitIntr s.intr s.side }
        (s, ⟨s.intr, 0, false⟩)
      else
        let wb := s.limit - s.bb.length
        match s.bb.write (d.take wb) with
        | none => (s, ⟨none, 0, true⟩)
        | some bb =>
          let w := bb.length - s.bb.length
          let s := processBody { s with bb := bb }
          (s, ⟨s.intr, w, false⟩)
    else
      match s.bb.write d with
      | none => (s, ⟨none, 0, true⟩)
      | some bb =>
        let w := bb.length - s.bb.length
        let s := { s with bb := bb }
        (s, ⟨s.intr, w, false⟩)

/-- the common tail of Read*BodyFrom after `writingBytes` is known: io.CopyN then the
    `length == limit` check (transaction.go:1031-1059) -/
def copyTail (s : St) (d : Bytes) (wb : Nat) (run : Bool) : St × WObs :=
  match s.bb.write (d.take wb) with
  | none => (s, ⟨none, 0, true⟩)
  | some bb =>
    let w := bb.length - s.bb.length
    let s := { s with bb := bb }
    if s.bb.length == s.limit then
      let s := { s with dataErr := true }
      if s.reject then
        let s := { s with intr := limitIntr s.intr s.side }
        (s, ⟨s.intr, 0, false⟩)
      else
        let s := processBody s
        (s, ⟨s.intr, w, false⟩)
    else
      let s := if run then processBody s else s
      (s, ⟨s.intr, w, false⟩)

/-- transaction.go:983 / 1246 -/
def readFrom (s : St) (d : Bytes) (hasLen : Bool) : St × WObs :=
  if s.limit == s.bb.length then
    (s, ⟨if s.reject then s.intr else none, 0, false⟩)
  else if hasLen then
    if s.bb.length + d.length ≥ s.limit then
      let s := { s with dataErr := true }
      if s.reject then
        let s := { s with intr := limitIntr s.intr s.side }
        (s, ⟨s.intr, 0, false⟩)
      else copyTail s d (s.limit - s.bb.length) true
    else copyTail s d d.length false
  else copyTail s d (s.limit - s.bb.length) false

def step (s : St) : Wr → St × WObs
  | .slice d => writeSlice s d
  | .known d => readFrom s d true
  | .unknown d => readFrom s d false

def run (s : St) : List Wr → St × List WObs
  | [] => (s, [])
  | w :: ws =>
    let (s1, o) := step s w
    let (s2, os) := run s1 ws
    (s2, o :: os)

def init (side : Side) (limit memLimit : Nat) (reject : Bool) : St :=
  { side := side
    bb := { limit := limit, memLimit := (match side with | .req => memLimit | .resp => limit), mem := [], file := none, length := 0 }
    limit := limit, reject := reject, intr := none, dataErr := false, phaseReady := true, bodyRuns := 0, bodyVar := none }

def Wr.data : Wr → Bytes | .slice d => d | .known d => d | .unknown d => d

end Coraza.Body
