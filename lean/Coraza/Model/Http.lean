/-
  The net/http middleware (C18): http/middleware.go (processRequest, WrapHandler,
  obtainStatusCodeFromInterruptionOrDefault) and http/interceptor.go (rwInterceptor:
  WriteHeader, Write, Flush, writeBufferedResponseBodyToDownstream, the response processor),
  over an abstract downstream writer and the response-side transaction behaviour of
  transaction.go:1153-1383 (ProcessResponseHeaders, WriteResponseBody, ProcessResponseBody).

  What the rules decide is a parameter of the scenario (`Cfg.p3`, `Cfg.p4`): the theorems hold
  for every such decision function.
-/
import Coraza.Base.Bytes
namespace Coraza.Http
open Coraza

structure Intr where
  action : String
  status : Nat
deriving Repr, DecidableEq

/-- middleware.go:148 obtainStatusCodeFromInterruptionOrDefault -/
def statusOf (it : Intr) (dflt : Nat) : Nat :=
  if it.action == "deny" then (if it.status == 0 then 403 else it.status) else dflt

structure Cfg where
  access : Bool                 -- tx.IsResponseBodyAccessible() as configured
  access3 : Option Bool := none -- a phase-3 ctl:responseBodyAccess=On/Off changes it from then on
  processable : Bool            -- tx.IsResponseBodyProcessable() (Content-Type vs SecResponseBodyMimeType)
  limit : Nat                   -- SecResponseBodyLimit
  reject : Bool                 -- SecResponseBodyLimitAction Reject
  p3 : Nat → Option Intr        -- what phase-3 rules decide, given the response status
  p4 : Bytes → Option Intr      -- what phase-4 rules decide, given RESPONSE_BODY

/-- interceptor + the response side of the transaction + the downstream writer -/
structure St where
  -- rwInterceptor
  wroteHeader : Bool := false
  statusCode : Nat := 200
  headerFlushed : Bool := false          -- isWriteHeaderFlush
  wroteBuffered : Bool := false          -- wroteBufferedBodyToDownstream
  allowFlushing : Bool := false
  -- transaction
  intr : Option Intr := none
  phase3 : Bool := false                 -- lastPhase ≥ 3
  phase4 : Bool := false                 -- lastPhase ≥ 4
  buf : Bytes := []                      -- responseBodyBuffer
  -- downstream http.ResponseWriter
  downStatus : Option Nat := none
  downBody : Bytes := []
  downFlushes : Nat := 0
  headersCleaned : Bool := false
deriving Repr, DecidableEq

/-- tx.IsResponseBodyAccessible() is read live on every call -/
def accNow (c : Cfg) (s : St) : Bool :=
  match c.access3 with
  | some a => if s.phase3 then a else c.access
  | none => c.access

def buffering (c : Cfg) (s : St) : Bool := accNow c s && c.processable && !s.wroteBuffered

/-- interceptor.go:82 flushWriteHeader -/
def flushWriteHeader (s : St) : St :=
  if !s.headerFlushed then { s with downStatus := some s.statusCode, headerFlushed := true } else s

/-- the "interrupted" epilogue used three times: clean headers, Content-Length 0, status, flush -/
def blockWith (s : St) (it : Intr) : St :=
  flushWriteHeader { s with headersCleaned := true, statusCode := statusOf it s.statusCode }

/-- transaction.go:1153 ProcessResponseHeaders -/
def processResponseHeaders (c : Cfg) (s : St) (code : Nat) : St × Option Intr :=
  if s.phase3 then (s, s.intr)
  else if s.intr.isSome then (s, s.intr)
  else
    let it := c.p3 code
    ({ s with phase3 := true, intr := it }, it)

/-- interceptor.go:47 WriteHeader -/
def writeHeader (c : Cfg) (s : St) (code : Nat) : St :=
  if s.wroteHeader then s
  else
    let s := { s with wroteHeader := true, statusCode := code }
    match processResponseHeaders c s code with
    | (s, some it) => blockWith s it
    | (s, none) =>
      let s := if code == 101 then flushWriteHeader s else s
      if !accNow c s || !c.processable then { s with allowFlushing := true } else s

/-- transaction.go:1316 ProcessResponseBody (called only when accessible and processable) -/
def processResponseBody (c : Cfg) (s : St) : St × Option Intr :=
  if s.intr.isSome then (s, s.intr)
  else if !(s.phase3 && !s.phase4) then (s, none)
  else
    let it := c.p4 s.buf
    ({ s with phase4 := true, intr := it }, it)

/-- transaction.go:1195 WriteResponseBody: (state, returned interruption, n) -/
def writeResponseBody (c : Cfg) (s : St) (b : Bytes) : St × Option Intr × Nat :=
  if c.limit == s.buf.length then
    (s, if c.reject then s.intr else none, 0)
  else if s.buf.length + b.length ≥ c.limit then
    if c.reject then
      let it := match s.intr with | some i => some i | none => some ⟨"deny", 500⟩
      ({ s with intr := it }, it, 0)
    else
      let w := c.limit - s.buf.length
      let s := { s with buf := s.buf ++ b.take w }
      let (s, _) := processResponseBody c s
      (s, s.intr, w)
  else ({ s with buf := s.buf ++ b }, s.intr, b.length)

/-- interceptor.go:123 writeBufferedResponseBodyToDownstream -/
def writeBufferedDown (s : St) : St :=
  if s.wroteBuffered then s
  else
    let s := flushWriteHeader s
    { s with downBody := s.downBody ++ s.buf, wroteBuffered := true }

/-- interceptor.go:94 Write -/
def write (c : Cfg) (s : St) (b : Bytes) : St :=
  if s.intr.isSome then s
  else
    let s := if !s.wroteHeader then writeHeader c s 200 else s
    -- the implicit WriteHeader may have interrupted (phase 3): nothing of `b` goes anywhere
    if s.intr.isSome then s
    else if buffering c s then
      match writeResponseBody c s b with
      | (s, some it, _) => blockWith s it
      | (s, none, n) =>
        if n == b.length then s
        else
          let s := writeBufferedDown s
          { s with downBody := s.downBody ++ b.drop n }
    else
      let s := flushWriteHeader s
      { s with downBody := s.downBody ++ b }

/-- interceptor.go:110 Flush -/
def flush (c : Cfg) (s : St) : St :=
  let s := if !s.wroteHeader then writeHeader c s 200 else s
  if s.allowFlushing && s.headerFlushed then { s with downFlushes := s.downFlushes + 1 } else s

inductive HOp | writeHeader (code : Nat) | write (b : Bytes) | flush
deriving Repr, DecidableEq

def step (c : Cfg) (s : St) : HOp → St
  | .writeHeader n => writeHeader c s n
  | .write b => write c s b
  | .flush => flush c s

/-- interceptor.go:153 the response processor that runs after the handler returned -/
def finish (c : Cfg) (s : St) : St :=
  if s.intr.isSome then s
  else if buffering c s then
    match processResponseBody c s with
    | (s, some it) => blockWith s it
    | (s, none) => writeBufferedDown s
  else flushWriteHeader { s with allowFlushing := true }

def runHandler (c : Cfg) (script : List HOp) : St := finish c (script.foldl (step c) {})

/-- what the client finally sees (net/http writes an implicit 200 when nothing was written) -/
def clientStatus (s : St) : Nat := s.downStatus.getD 200

/-! ### request side (middleware.go:20 processRequest) -/

/-- the body the wrapped handler reads: the buffered prefix (RequestBodyReader) followed by
    what ReadRequestBodyFrom left unread in req.Body (io.MultiReader) -/
def handlerBody (body : Bytes) (access : Bool) (limit : Nat) : Bytes :=
  if access then body.take limit ++ body.drop limit else body

/-- WrapHandler: a request-phase interruption ends the exchange before the handler runs -/
def requestOutcome (reqIntr : Option Intr) : Option Nat :=   -- some status = blocked, handler not invoked
  match reqIntr with
  | some it => some (statusOf it 200)
  | none => none

end Coraza.Http
