/-
  File-system faults (C20): BodyBuffer.Write / reader / Reset (internal/corazawaf/body_buffer.go),
  the multipart upload loop (internal/bodyprocessors/multipart.go:60-110), the request-body
  error path of ProcessRequestBody (transaction.go:1130-1150), AuditLog()'s body read
  (transaction.go:1553) and Transaction.Close (transaction.go:1666), over an abstract file
  system whose every primitive consults a *fault oracle*: `oracle k n` = the n-th call of
  kind k fails. Any number of faults, in any pattern.
-/
import Coraza.Base.Bytes
namespace Coraza.Faults
open Coraza

inductive Kind | openat | write | pread | close | unlink
deriving Repr, DecidableEq

/-- the world outside the transaction: call counters, the oracle, the temp files that exist -/
structure W where
  cnt : Kind → Nat := fun _ => 0
  oracle : Kind → Nat → Bool
  files : List Nat := []          -- ids of existing temp files created by this transaction
  next : Nat := 0
  failed : Bool := false          -- ghost: some primitive has failed so far

/-- one primitive: bump the counter of its kind, ask the oracle -/
def W.call (w : W) (k : Kind) : W × Bool :=
  let n := w.cnt k + 1
  let f := w.oracle k n
  ({ w with cnt := fun k' => if k' = k then n else w.cnt k', failed := w.failed || f }, f)

/-- a temp file comes into existence (os.CreateTemp succeeded): fresh id -/
def W.create (w : W) : W × Nat := ({ w with files := w.files ++ [w.next], next := w.next + 1 }, w.next)

/-- a temp file is removed (os.Remove succeeded) -/
def W.remove (w : W) (id : Nat) : W := { w with files := w.files.filter (· != id) }

/-- body_buffer.go BodyBuffer with a fallible spill file -/
structure FBB where
  memLimit : Nat
  limit : Nat
  mem : Bytes := []
  file : Option Nat := none       -- id of the spill file once created (br.writer)
  fcontent : Bytes := []
  length : Nat := 0

/-- body_buffer.go:48 Write; Bool = error returned -/
def FBB.write (w : W) (b : FBB) (d : Bytes) : W × FBB × Bool :=
  if d.isEmpty then (w, b, false)
  else if b.length + d.length > b.limit then (w, b, true)
  else
    let target := b.length + d.length
    if target > b.memLimit then
      match b.file with
      | none =>
        let r1 := w.call .openat                                -- os.CreateTemp
        if r1.2 then (r1.1, b, true)
        else
          let c := r1.1.create
          let b := { b with file := some c.2 }
          let r2 := c.1.call .write                             -- flush the memory buffer into the file
          if r2.2 then (r2.1, b, true)
          else
            let b := { b with fcontent := b.mem, mem := [], length := target }
            let r3 := r2.1.call .write                          -- the new data
            if r3.2 then (r3.1, b, true) else (r3.1, { b with fcontent := b.fcontent ++ d }, false)
      | some _ =>
        let b := { b with length := target }
        let r := w.call .write
        if r.2 then (r.1, b, true) else (r.1, { b with fcontent := b.fcontent ++ d }, false)
    else (w, { b with mem := b.mem ++ d, length := target }, false)

/-- reading the buffer to EOF through a reader: memory → no I/O; file → a data pread and an EOF pread -/
def FBB.readAll (w : W) (b : FBB) : W × Option Bytes :=
  match b.file with
  | none => (w, some b.mem)
  | some _ =>
    let (w, f1) := w.call .pread
    if f1 then (w, none)
    else
      let (w, f2) := w.call .pread
      if f2 then (w, none) else (w, some b.fcontent)

/-- mime/multipart reading the body: once the closing boundary has been parsed, the failing EOF
    probe that follows is never looked at -/
def FBB.readAllMultipart (w : W) (b : FBB) : W × Option Bytes :=
  match b.file with
  | none => (w, some b.mem)
  | some _ =>
    let (w, f1) := w.call .pread
    if f1 then (w, none)
    else
      let (w, _) := w.call .pread
      (w, some b.fcontent)

/-- body_buffer.go:150 Reset: the file is removed even if closing it fails; first error returned -/
def FBB.reset (w : W) (b : FBB) : W × FBB × Bool :=
  match b.file with
  | none => (w, { b with mem := [], length := 0 }, false)
  | some id =>
    let rc := w.call .close
    let ru := rc.1.call .unlink
    let w := if ru.2 then ru.1 else ru.1.remove id
    (w, { b with mem := [], length := 0, file := none, fcontent := [] }, rc.2 || ru.2)

/-- the transaction state the fault paths touch -/
structure FTx where
  bb : FBB
  uploads : List Nat := []        -- FILES_TMPNAMES: registered upload temp files
  filesSeen : Nat := 0            -- FILES entries (a part counted only after a successful copy)
  reqbodyErr : Bool := false      -- REQBODY_ERROR
  msErr : Bool := false           -- MULTIPART_STRICT_ERROR
  bodyVar : Bool := false         -- REQUEST_BODY was set (raw processor succeeded on a non-empty body)
  logErrs : Nat := 0
  errs : List String := []        -- steps whose call returned an error

/-- multipart.go:60-110 for the file parts of the body, in order; Bool = error returned -/
def storeParts (w : W) (tx : FTx) : Nat → W × FTx × Bool
  | 0 => (w, tx, false)
  | n + 1 =>
    let r1 := w.call .openat                                  -- os.CreateTemp(storagePath, "crzmp*")
    if r1.2 then (r1.1, { tx with msErr := true }, true)
    else
      let c := r1.1.create
      let tx := { tx with uploads := tx.uploads ++ [c.2] }    -- registered before the copy
      let rw := c.1.call .write                               -- io.Copy(temp, part)
      let rc := rw.1.call .close                              -- temp.Close(), checked
      if rw.2 || rc.2 then (rc.1, { tx with msErr := true }, true)
      else storeParts rc.1 { tx with filesSeen := tx.filesSeen + 1 } n

/-- ProcessRequestBody for the two processors of the scenario (RAW, MULTIPART with k file parts) -/
def processBody (w : W) (tx : FTx) (multipart : Bool) (nUploads : Nat) : W × FTx :=
  if tx.bb.length == 0 then (w, tx)
  else
    match (if multipart then tx.bb.readAllMultipart w else tx.bb.readAll w) with
    | (w, none) => (w, { tx with reqbodyErr := true, msErr := tx.msErr || multipart })
    | (w, some content) =>
      if multipart then
        match storeParts w tx nUploads with
        | (w, tx, true) => (w, { tx with reqbodyErr := true })
        | (w, tx, false) => (w, tx)
      else (w, { tx with bodyVar := !content.isEmpty })

/-- Transaction.Close: remove the registered uploads unless kept, then reset the buffer -/
def removeUploads (w : W) : List Nat → W × Bool
  | [] => (w, false)
  | id :: ids =>
    let r := w.call .unlink
    let w := if r.2 then r.1 else r.1.remove id
    let rest := removeUploads w ids
    (rest.1, r.2 || rest.2)

def closeTx (w : W) (tx : FTx) (keep : Bool) : W × FTx :=
  let r1 := if keep then (w, false) else removeUploads w tx.uploads
  let r2 := tx.bb.reset r1.1
  (r2.1, { tx with bb := r2.2.1, errs := if r1.2 || r2.2.2 then tx.errs ++ ["close"] else tx.errs })

inductive Step | h1 | w (d : Bytes) (name : String) | b2 | rd | lg
deriving Repr

def runStep (multipart : Bool) (nUploads : Nat) (w : W) (tx : FTx) : Step → W × FTx
  | .h1 => (w, tx)
  | .w d name =>
    let (w, bb, e) := tx.bb.write w d
    (w, { tx with bb := bb, errs := if e then tx.errs ++ [name] else tx.errs })
  | .b2 => processBody w tx multipart nUploads
  | .rd =>
    match tx.bb.readAll w with
    | (w, none) => (w, { tx with errs := tx.errs ++ ["rd"] })
    | (w, some _) => (w, tx)
  | .lg =>
    -- AuditLog() part C: a failed read is logged, the record goes out without the body
    match tx.bb.readAll w with
    | (w, none) => (w, { tx with logErrs := tx.logErrs + 1 })
    | (w, some _) => (w, tx)

def runSteps (multipart : Bool) (nUploads : Nat) : W → FTx → List Step → W × FTx
  | w, tx, [] => (w, tx)
  | w, tx, s :: ss => let (w, tx) := runStep multipart nUploads w tx s; runSteps multipart nUploads w tx ss

/-- the whole scripted transaction: the first `stop` steps, then Close -/
def runTx (oracle : Kind → Nat → Bool) (memLimit : Nat) (multipart : Bool) (nUploads : Nat) (keep : Bool)
    (steps : List Step) (stop : Nat) : W × FTx :=
  let w : W := { oracle := oracle }
  let tx : FTx := { bb := { memLimit := memLimit, limit := 1000 } }
  let (w, tx) := runSteps multipart nUploads w tx (steps.take stop)
  closeTx w tx keep

end Coraza.Faults
