/-
  Transaction recycling (C05): internal/corazawaf/waf.go:198-287 newTransaction on a pooled
  object, transaction.go:1666 Close → variables.reset() (transaction.go:2547), over the
  fields of the engine model's `Tx`.
-/
import Coraza.Model.Engine
import Coraza.Model.Decode
namespace Coraza.Engine
open Coraza

/-- Close: `tx.variables.reset()` empties every collection; nothing else is reset there -/
def closeTx (tx : Tx) : Tx :=
  { tx with rl := {}, argsGet := {}, argsPost := {}, argsPath := {}, reqHeaders := {}, reqCookies := {}, respHeaders := {}, env := {},
            txc := {}, matchedVars := {},
            matchedVar := [], matchedVarName := [], highestSeverity := 0, respStatus := [] }

/-- newTransaction on the object the pool hands back: the listed assignments, then the
    capture slots TX.0…TX.10 and the defaults (waf.go:258-275). `evalLog`/`errCb` are ghosts of
    the harness and start empty by definition. -/
def newTx (mode : EngineMode) (old : Tx) (ae : AuditEngine := .off) (parts : Bytes := []) : Tx :=
  { old with
      matched := [], intr := none, detIntr := none, skipAfter := [], engine := mode, lastPhase := 0,
      rmIds := [], rmRanges := [], rmTargets := [], skip := 0, allow := .unset, audit := false,
      txc := (List.range 11).foldl (fun m i => m.set1 (natToBytes i) []) old.txc,
      highestSeverity := 255, evalLog := [], errCb := [], auditEngine := ae, auditParts := parts, respStatus := [], respCode := [] }

/-- a brand-new object (pool empty): zero value + the same initialisation -/
def freshTx (mode : EngineMode) : Tx := newTx mode {}

/-- feeding the request of a test case into a transaction (API Add* calls) -/
def feed (tx : Tx) (get post hdr : List (Bytes × Bytes)) (rhdr : List (Bytes × Bytes) := []) : Tx :=
  let addAll (m : CMap) (ps : List (Bytes × Bytes)) : CMap := ps.foldl (fun m p => m.add p.1 p.2) m
  -- transaction.go:377 AddRequestHeader ignores a header with an empty name; a `Cookie` header (any spelling)
  -- is split into the cookies, in the order of the header (:391-411)
  let cookies := (hdr.filter fun p => lower p.1 == Bytes.ofString "cookie").flatMap fun p => Decode.parseCookies p.2
  { tx with argsGet := addAll tx.argsGet get, argsPost := addAll tx.argsPost post,
            reqHeaders := addAll tx.reqHeaders (hdr.filter fun p => !p.1.isEmpty),
            reqCookies := addAll tx.reqCookies cookies,
            -- :418 AddResponseHeader
            respHeaders := addAll tx.respHeaders (rhdr.filter fun p => !p.1.isEmpty) }

end Coraza.Engine
