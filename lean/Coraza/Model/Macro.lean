/-
  experimental/plugins/macro/macro.go:96 compile — tokenising `%{var.key}` macros.
  `none` = compile error. Variable names are resolved by a parameter (`parseVar`).
-/
import Coraza.Model.Engine
namespace Coraza.Engine
open Coraza

def isValidMacroChar (c : UInt8) : Bool :=
  c == 0x5b || c == 0x5d || c == 0x2e || c == 0x5f || c == 0x2d ||
  (48 ≤ c && c ≤ 57) || (65 ≤ c && c ≤ 90) || (97 ≤ c && c ≤ 122)

/-- strings.Cut(s, ".") -/
def cutDot : Bytes → Bytes × Bytes
  | [] => ([], [])
  | b :: tl => if b == 0x2e then ([], tl) else let (a, r) := cutDot tl; (b :: a, r)

def upper (k : Bytes) : Bytes := k.map asciiUpper

/-- the variable names the engine model knows (variables.Parse is case-insensitive) -/
def parseVar (n : Bytes) : Option Var :=
  let u := upper n
  [Var.argsGet, .argsPost, .argsPath, .args, .argsNames, .argsGetNames, .argsPostNames, .reqHeaders,
   .reqHeadersNames, .tx, .matchedVar, .matchedVarName, .matchedVars, .matchedVarsNames, .argsCombinedSize,
   .reqUriRaw, .reqUri, .reqFilename, .reqBasename, .queryString, .reqMethod, .reqLine, .reqProtocol,
   .reqCookies, .reqCookiesNames, .respHeaders, .respHeadersNames, .env].find? (fun v => v.name == u)

/-- state machine of macro.compile: `cur` is the current token in reverse, `inMacro` the flag,
    `prev` the previous input byte (for the `input[i-1] == '.'` test), `skip` = the `i++` that
    skips the '{' after '%' -/
def compileAux : Bytes → (cur : Bytes) → (inMacro : Bool) → (prev : UInt8) → (skip : Bool) → Macro → Option Macro
  | [], cur, inMacro, _, _, acc =>
    -- inside a macro the loop already returned "no closing braces" at the last byte
    if inMacro then none
    else some (if cur.isEmpty then acc else acc ++ [.text cur.reverse])
  | c :: rest, cur, inMacro, prev, skip, acc =>
    if skip then compileAux rest cur inMacro c false acc
    else if c == 0x25 && rest.head? == some 0x7b then
      -- "%{" : flush the text token, enter macro mode, skip '{'
      let acc := if cur.isEmpty then acc else acc ++ [.text cur.reverse]
      compileAux rest [] true c true acc
    else if inMacro then
      if c == 0x7d then
        if prev == 0x2e then none                    -- "empty variable name"
        else
          let tok := cur.reverse
          let (vn, key) := cutDot tok
          match parseVar vn with
          | none => none                             -- "unknown variable"
          | some v => compileAux rest [] false c false (acc ++ [.var v (lower key) tok])
      else if !isValidMacroChar c then none
      else if rest.isEmpty then none                 -- "no closing braces"
      else compileAux rest (c :: cur) true c false acc
    else compileAux rest (c :: cur) false c false acc

/-- macro.NewMacro: empty input is an error -/
def compileMacro (input : Bytes) : Option Macro :=
  if input.isEmpty then none else compileAux input [] false 0 false []

end Coraza.Engine
