/-
  transaction.go:822 ProcessURI on the fragment of request URIs the engine correspondence uses:
  an absolute path of unreserved characters, optionally `?query` (any bytes url.ParseQuery is
  modelled on, see Model/Decode.lean) and `#fragment`. On that fragment url.ParseRequestURI
  succeeds, `Path` is the text before `?` and `String()` writes path and raw query back unchanged.
-/
import Coraza.Model.Recycle
import Coraza.Model.Decode
namespace Coraza.Engine
open Coraza

def isPathByte (b : UInt8) : Bool :=
  (48 ≤ b && b ≤ 57) || (65 ≤ b && b ≤ 90) || (97 ≤ b && b ≤ 122) || b == 0x2f || b == 0x2e || b == 0x5f || b == 0x2d

/-- the text before the first `sep`, and the text after it (none if there is no `sep`) -/
def cut1 (sep : UInt8) (s : Bytes) : Bytes × Option Bytes :=
  match s.dropWhile (· != sep) with
  | [] => (s.takeWhile (· != sep), none)
  | _ :: b => (s.takeWhile (· != sep), some b)

/-- is the URI inside the modelled fragment -/
def uriInFragment (uri : Bytes) : Bool :=
  let u := (cut1 0x23 uri).1
  let (path, q) := cut1 0x3f u
  path.head? == some 0x2f && path.all isPathByte &&
  (match q with
   | none => true
   | some q => !q.isEmpty && q.all (fun b => 0x20 < b && b < 0x7f && b != 0x23))

/-- REQUEST_BASENAME (:861): what follows the last `/` or `\`, unless nothing follows it -/
def basenameOf (path : Bytes) : Bytes :=
  let rev := path.reverse
  let tail := (rev.takeWhile (fun b => b != 0x2f && b != 0x5c)).reverse
  if tail.length == path.length then path          -- no separator
  else if tail.isEmpty then path                   -- the separator is the last byte
  else tail

/-- ProcessURI(uri, method, "HTTP/1.1") -/
def processURI (tx : Tx) (uri method : Bytes) : Tx :=
  let proto := Bytes.ofString "HTTP/1.1"
  let u := (cut1 0x23 uri).1
  let (path, q) := cut1 0x3f u
  let query := q.getD []
  let args := Decode.parseQuery query
  { tx with
      rl := { uriRaw := uri, uri := u, filename := path, basename := basenameOf path, query := query,
              method := method, line := method ++ [0x20] ++ uri ++ [0x20] ++ proto, protocol := proto },
      argsGet := args.foldl (fun m p => m.add p.1 p.2) tx.argsGet }

end Coraza.Engine
