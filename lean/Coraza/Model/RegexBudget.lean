/-
  The derivative matcher of Model/Regex.lean with a size budget, for the correspondence driver:
  it gives the answer of `search` or gives up (`none`) when a derivative grows past the budget
  (nested counted repetitions make derivatives grow without bound; such expressions are then
  outside the compared fragment instead of exhausting the machine). Proofs/RegexBudget.lean: whenever
  it answers, the answer is that of `search`.
-/
import Coraza.Model.Regex
namespace Coraza.Regex

def reSize : Re → Nat
  | .cat a b => reSize a + reSize b + 1
  | .alt a b => reSize a + reSize b + 1
  | .star a => reSize a + 1
  | _ => 1

def prefixMatchB (cap : Nat) (r : Re) (prev : Option UInt8) : Bytes → Option Bool
  | [] => some (nullable prev none r)
  | c :: cs =>
    if nullable prev (some c) r then some true
    else
      let d := deriv prev c r
      if reSize d > cap then none else prefixMatchB cap d (some c) cs

def searchFromB (cap : Nat) (r : Re) (prev : Option UInt8) : Bytes → Option Bool
  | [] => some (nullable prev none r)
  | c :: cs =>
    match prefixMatchB cap r prev (c :: cs) with
    | none => none
    | some true => some true
    | some false => searchFromB cap r (some c) cs

def searchB (cap : Nat) (r : Re) (s : Bytes) : Option Bool := searchFromB cap r none s

end Coraza.Regex
