/-
  Body readers across Close (C05): internal/corazawaf/body_buffer.go
    :136 Reader  — hands out a reader and registers it in br.readers
    :102 Read    — a closed reader (br == nil) yields nothing; otherwise the buffer from its position
    :150 Reset   — empties the buffer, closes every registered reader, forgets them
  Readers are heap objects a connector may keep after the transaction was closed and its object
  recycled; they are identified by the order in which they were handed out.
-/
import Coraza.Base.Bytes
namespace Coraza.Readers
open Coraza

structure Rd where
  closed : Bool := false
  pos : Nat := 0
deriving Repr, DecidableEq

structure St where
  content : Bytes := []           -- the buffer (memory or spill file: C10_spill_invisible)
  readers : List Rd := []         -- every reader ever handed out, in order (the heap)
  registered : List Nat := []     -- br.readers: indices of the readers Reset will close
deriving Repr, DecidableEq

inductive Op
  | write (b : Bytes)             -- BodyBuffer.Write (limits are C10's business)
  | reader                        -- BodyBuffer.Reader
  | read (i : Nat) (n : Nat)      -- reader i reads up to n bytes
  | reset                         -- BodyBuffer.Reset (Transaction.Close; the object goes back to the pool)

def closeAll (rs : List Rd) (reg : List Nat) : List Rd :=
  (rs.zipIdx).map fun (r, i) => if reg.contains i then { closed := true, pos := 0 } else r

/-- what reader i yields when asked for n bytes -/
def readOut (s : St) (i n : Nat) : Bytes :=
  match s.readers[i]? with
  | some r => if r.closed then [] else (s.content.drop r.pos).take n
  | none => []

def step (s : St) : Op → St
  | .write b => { s with content := s.content ++ b }
  | .reader => { s with readers := s.readers ++ [{}], registered := s.registered ++ [s.readers.length] }
  | .read i n =>
    { s with readers := s.readers.zipIdx.map fun (r, j) =>
        if j == i && !r.closed then { r with pos := r.pos + ((s.content.drop r.pos).take n).length } else r }
  | .reset => { content := [], readers := closeAll s.readers s.registered, registered := [] }

def run (s : St) (ops : List Op) : St := ops.foldl step s

end Coraza.Readers
