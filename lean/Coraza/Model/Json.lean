/-
  internal/bodyprocessors/json.go: readJSON / readItems — a JSON document (as a tree; the text is
  produced from the tree by an independent encoder in the harness, gjson's reading of *valid* JSON
  is the assumed contract) flattened into ARGS_POST.

    {"data":{"name":"John","age":30},"items":[1,2,3]}
      ↦ json.data.name=John json.data.age=30 json.items.0=1 json.items.1=2 json.items.2=3 json.items=3

  Every item is added to ARGS_POST in document order (`col.Add`); before fix 7f3a048 the items went
  through a `map[string]string` and `SetIndex(key, 0, …)`, so items with coinciding names overwrote
  each other (`toMap` below is that behaviour, kept for the theorem that states what was lost).
-/
import Coraza.Model.Engine
namespace Coraza.Json
open Coraza Coraza.Engine

inductive J
  | null | tru | fls
  | num (raw : Bytes)            -- the number as written
  | str (s : Bytes)              -- the decoded string
  | arr (xs : List J)
  | obj (kvs : List (Bytes × J)) -- members in document order, names decoded, duplicates possible

def dot : UInt8 := 0x2e

/-- the text a scalar is exposed as (json.go:139-147): string decoded, null empty, otherwise raw -/
def scalarText : J → Option Bytes
  | .null => some []
  | .tru => some (Bytes.ofString "true")
  | .fls => some (Bytes.ofString "false")
  | .num r => some r
  | .str s => some s
  | .arr _ => none
  | .obj _ => none

mutual
/-- readItems on a container with `d` levels of recursion left: entries in the order the Go code
    assigns them, and whether "max recursion reached" was raised -/
def flatC : Nat → J → Bytes → List (Bytes × Bytes) × Bool
  | 0, _, _ => ([], true)
  | d + 1, .arr xs, key =>
    let (es, n, err, stopKey) := flatArr d xs key 0
    -- json.go:153: the element count is stored under `objKey`, which the callback has not cut back
    -- when it stopped at a failing element (error path only): then it is that element's name
    (if n > 0 then es ++ [(stopKey.getD key, natToBytes n)] else es, err)
  | d + 1, .obj kvs, key => flatObj d kvs key
  | _ + 1, _, _ => ([], false)

/-- the elements of an array from index `i`: entries, number of elements visited, error, and the
    name of the element the iteration stopped at (if it did) -/
def flatArr : Nat → List J → Bytes → Nat → List (Bytes × Bytes) × Nat × Bool × Option Bytes
  | _, [], _, _ => ([], 0, false, none)
  | d, x :: xs, key, i =>
    let k := key ++ [dot] ++ natToBytes i
    match scalarText x with
    | some v =>
      let (es, n, err, sk) := flatArr d xs key (i + 1)
      ((k, v) :: es, n + 1, err, sk)
    | none =>
      let (e1, err1) := flatC d x k
      if err1 then (e1, 1, true, some k)   -- the iteration stops at the failing element (counted)
      else
        let (es, n, err, sk) := flatArr d xs key (i + 1)
        (e1 ++ es, n + 1, err, sk)

def flatObj : Nat → List (Bytes × J) → Bytes → List (Bytes × Bytes) × Bool
  | _, [], _ => ([], false)
  | d, (name, x) :: kvs, key =>
    let k := key ++ [dot] ++ name
    match scalarText x with
    | some v =>
      let (es, err) := flatObj d kvs key
      ((k, v) :: es, err)
    | none =>
      let (e1, err1) := flatC d x k
      if err1 then (e1, true)
      else
        let (es, err) := flatObj d kvs key
        (e1 ++ es, err)
end

def jsonKey : Bytes := Bytes.ofString "json"

/-- readJSON on a valid document: a scalar at the top is visited by gjson's ForEach as one
    element with a numeric (zero) key -/
def readJSON (depth : Nat) (t : J) : List (Bytes × Bytes) × Bool :=
  if depth == 0 then ([], true) else
  match scalarText t with
  | some v => ([(jsonKey ++ [dot] ++ natToBytes 0, v), (jsonKey, natToBytes 1)], false)
  | none => flatC depth t jsonKey

/-- the `map[string]string` of the code before fix 7f3a048 (and of `readJSON`, which the unit tests
    still use): a later entry replaces an earlier one with the same name -/
def toMap : List (Bytes × Bytes) → List (Bytes × Bytes)
  | [] => []
  | (k, v) :: es => if es.any (·.1 == k) then toMap es else (k, v) :: toMap es

/-- what the JSON processor adds to ARGS_POST, in document order, and the error flag: every item
    (json.go ProcessRequest: `readJSONItems(…, col.Add)`) -/
def argsPost (depth : Nat) (t : J) : List (Bytes × Bytes) × Bool := readJSON depth t

end Coraza.Json
