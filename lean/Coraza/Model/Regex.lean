/-
  An exact, executable model of Go's `regexp` (RE2 syntax, Perl flags) on a fragment, used wherever
  coraza decides something by `regexp.MatchString` on ASCII text:

    internal/corazawaf/rule.go:592 AddVariable / :639 AddVariableNegation   regex keys  `VAR:/re/`
    internal/collections/map.go:62 FindRegex, named.go:103                   key selection
    internal/corazawaf/transaction.go:655 GetField                            regex exclusions
    internal/actions/ctl.go:405 parseCtl                                      ctl:ruleRemoveTargetBy*=…;VAR:/re/
    internal/operators/rx.go:65 newRX / :131 Evaluate (non-capturing result)  @rx  ("(?sm)" prefix)

  Two parts:
   * `parse`: the pattern *text* → `Re` (what regexp/syntax.Parse builds, desugared: x+ = xx*,
     x? = x|ε, x{n,m} unrolled, case folding and Perl classes expanded into byte classes).
     Outside the fragment (non-ASCII, \p, \Q, POSIX classes, named groups, counted repetition
     above 8, stacked repetition = Go's parse error, …) the answer is `none` and the driver judges
     by the monitor only.
   * `search`: Brzozowski derivatives with one byte of left and right context for the empty-width
     assertions (\A \z ^ $ in both line modes, \b \B). Boolean result only (leftmost-first
     submatch positions are not modelled).

  Inputs are bytes; the correspondence only sends ASCII subjects (Go decodes UTF-8 runes, so a
  multi-byte rune is one step for Go and several here).

  The semantics the matcher is proved against is `Coraza.Regex.Matches` in Proofs/Regex.lean.
-/
import Coraza.Base.Bytes
namespace Coraza.Regex
open Coraza

inductive Asrt | bot | eot | bol | eol | wordB | nwordB
deriving Repr, DecidableEq

/-- Go: `syntax.IsWordChar` -/
def isWord (b : UInt8) : Bool := (48 ≤ b && b ≤ 57) || (65 ≤ b && b ≤ 90) || (97 ≤ b && b ≤ 122) || b == 95

def optWord : Option UInt8 → Bool
  | none => false
  | some c => isWord c

/-- does the empty-width assertion hold between `prev` and `next` (none = edge of the text) -/
def Asrt.holds (a : Asrt) (prev next : Option UInt8) : Bool :=
  match a with
  | .bot => prev.isNone
  | .eot => next.isNone
  | .bol => match prev with | none => true | some c => c == 10
  | .eol => match next with | none => true | some c => c == 10
  | .wordB => optWord prev != optWord next
  | .nwordB => optWord prev == optWord next

inductive Re
  | fail | eps
  | cls (neg : Bool) (rs : List (UInt8 × UInt8))
  | asrt (a : Asrt)
  | cat (a b : Re) | alt (a b : Re) | star (a : Re)
deriving Repr, DecidableEq

def inRanges (rs : List (UInt8 × UInt8)) (c : UInt8) : Bool := rs.any fun r => r.1 ≤ c && c ≤ r.2

def clsHolds (neg : Bool) (rs : List (UInt8 × UInt8)) (c : UInt8) : Bool := neg != inRanges rs c

/-- does `r` match the empty string between `prev` and `next` -/
def nullable (prev next : Option UInt8) : Re → Bool
  | .fail => false
  | .eps => true
  | .cls _ _ => false
  | .asrt a => a.holds prev next
  | .cat a b => nullable prev next a && nullable prev next b
  | .alt a b => nullable prev next a || nullable prev next b
  | .star _ => true

/-- smart constructors: prune dead threads (semantically the plain constructors) -/
def mkCat (a b : Re) : Re :=
  match a with
  | .fail => .fail
  | .eps => b
  | _ => match b with
    | .fail => .fail
    | _ => .cat a b

/-- is `a` already one of the alternatives `b` is made of -/
def altMem (a : Re) : Re → Bool
  | .alt x y => altMem a x || altMem a y
  | r => a == r

/-- alternation up to `fail` and to alternatives that are already there (without the latter the
    derivatives of nested repetitions such as `(\S+)*` double at every byte) -/
def mkAlt (a b : Re) : Re :=
  match a with
  | .fail => b
  | _ => match b with
    | .fail => a
    | _ => if altMem a b then b else .alt a b

/-- derivative by the byte `c` whose left neighbour is `prev` -/
def deriv (prev : Option UInt8) (c : UInt8) : Re → Re
  | .fail => .fail
  | .eps => .fail
  | .cls neg rs => if clsHolds neg rs c then .eps else .fail
  | .asrt _ => .fail
  | .cat a b =>
    mkAlt (mkCat (deriv prev c a) b) (if nullable prev (some c) a then deriv prev c b else .fail)
  | .alt a b => mkAlt (deriv prev c a) (deriv prev c b)
  | .star a => mkCat (deriv prev c a) (.star a)

/-- some prefix of the input matches (left context `prev`) -/
def prefixMatch (r : Re) (prev : Option UInt8) : Bytes → Bool
  | [] => nullable prev none r
  | c :: cs => nullable prev (some c) r || prefixMatch (deriv prev c r) (some c) cs

/-- `regexp.MatchString`: some substring matches -/
def searchFrom (r : Re) (prev : Option UInt8) : Bytes → Bool
  | [] => nullable prev none r
  | c :: cs => prefixMatch r prev (c :: cs) || searchFrom r (some c) cs

def search (r : Re) (s : Bytes) : Bool := searchFrom r none s

/-! ## the pattern text (regexp/syntax/parse.go, flags = syntax.Perl) -/

structure Flags where
  i : Bool := false
  s : Bool := false
  m : Bool := false
deriving Repr, DecidableEq

def isDigit (b : UInt8) : Bool := 48 ≤ b && b ≤ 57
def isAlpha (b : UInt8) : Bool := (65 ≤ b && b ≤ 90) || (97 ≤ b && b ≤ 122)
def isAlnum (b : UInt8) : Bool := isDigit b || isAlpha b

def digitR : List (UInt8 × UInt8) := [(48, 57)]
def wordR : List (UInt8 × UInt8) := [(48, 57), (65, 90), (95, 95), (97, 122)]
/-- Perl \s in Go: [\t\n\f\r ] -/
def spaceR : List (UInt8 × UInt8) := [(9, 10), (12, 13), (32, 32)]

/-- complement of a range list inside 0..255 (ranges need not be sorted) -/
def complR (rs : List (UInt8 × UInt8)) : List (UInt8 × UInt8) :=
  ((List.range 256).filter fun n => !inRanges rs (UInt8.ofNat n)).map fun n => (UInt8.ofNat n, UInt8.ofNat n)

/-- (?i): add the other-case counterpart of the letters in every range -/
def foldR (rs : List (UInt8 × UInt8)) : List (UInt8 × UInt8) :=
  rs.flatMap fun r =>
    let lo := r.1; let hi := r.2
    let up := if lo ≤ 122 && 97 ≤ hi then [((if lo < 97 then 97 else lo) - 32, (if hi > 122 then 122 else hi) - 32)] else []
    let dn := if lo ≤ 90 && 65 ≤ hi then [((if lo < 65 then 65 else lo) + 32, (if hi > 90 then 90 else hi) + 32)] else []
    [r] ++ up ++ dn

def litRe (fl : Flags) (c : UInt8) : Re :=
  if fl.i && isAlpha c then .cls false [(asciiLower c, asciiLower c), (asciiUpper c, asciiUpper c)] else .cls false [(c, c)]

def hexV (c : UInt8) : Option Nat :=
  if 48 ≤ c && c ≤ 57 then some (c.toNat - 48)
  else if 97 ≤ c && c ≤ 102 then some (c.toNat - 87)
  else if 65 ≤ c && c ≤ 70 then some (c.toNat - 55)
  else none

/-- what follows a backslash, outside a class: a regex, or `none` (error / outside the fragment) -/
inductive Esc | lit (c : UInt8) | ranges (neg : Bool) (rs : List (UInt8 × UInt8)) | asrt (a : Asrt)

def pEscape (s : Bytes) : Option (Esc × Bytes) :=
  match s with
  | [] => none
  | c :: rest =>
    if c == 0x64 then some (.ranges false digitR, rest)        -- \d
    else if c == 0x44 then some (.ranges true digitR, rest)    -- \D
    else if c == 0x77 then some (.ranges false wordR, rest)    -- \w
    else if c == 0x57 then some (.ranges true wordR, rest)     -- \W
    else if c == 0x73 then some (.ranges false spaceR, rest)   -- \s
    else if c == 0x53 then some (.ranges true spaceR, rest)    -- \S
    else if c == 0x62 then some (.asrt .wordB, rest)           -- \b
    else if c == 0x42 then some (.asrt .nwordB, rest)          -- \B
    else if c == 0x41 then some (.asrt .bot, rest)             -- \A
    else if c == 0x7a then some (.asrt .eot, rest)             -- \z
    else if c == 0x6e then some (.lit 10, rest)                -- \n
    else if c == 0x74 then some (.lit 9, rest)                 -- \t
    else if c == 0x72 then some (.lit 13, rest)                -- \r
    else if c == 0x66 then some (.lit 12, rest)                -- \f
    else if c == 0x76 then some (.lit 11, rest)                -- \v
    else if c == 0x61 then some (.lit 7, rest)                 -- \a
    else if c == 0x78 then                                     -- \xHH
      match rest with
      | h1 :: h2 :: rest' =>
        match hexV h1, hexV h2 with
        | some a, some b => if a * 16 + b < 128 then some (.lit (UInt8.ofNat (a * 16 + b)), rest') else none
        | _, _ => none
      | _ => none
    else if c < 128 && !isAlnum c then some (.lit c, rest)     -- escaped punctuation
    else none

/-- the items of a bracket class up to the closing `]`; `first` = a `]` here is a literal -/
def pClassItems : Nat → Bool → Bytes → Option (List (UInt8 × UInt8) × Bytes)
  | 0, _, _ => none
  | f + 1, first, s =>
    match s with
    | [] => none
    | c :: rest =>
      if c == 0x5d && !first then some ([], rest)
      else if c == 0x5b && rest.head? == some 0x3a then none       -- [:alpha:] : outside the fragment
      else
        -- one class char (or a Perl class)
        let one : Option (Sum UInt8 (List (UInt8 × UInt8)) × Bytes) :=
          if c == 0x5c then
            match pEscape rest with
            | some (.lit x, r) => some (.inl x, r)
            | some (.ranges neg rs, r) => some (.inr (if neg then complR rs else rs), r)
            | _ => none
          else if c < 128 then some (.inl c, rest) else none
        match one with
        | none => none
        | some (.inr rs, r) =>
          match pClassItems f false r with
          | some (more, r') => some (rs ++ more, r')
          | none => none
        | some (.inl lo, r) =>
          match r with
          | 0x2d :: h :: r2 =>
            if h == 0x5d then
              match pClassItems f false r with
              | some (more, r') => some ((lo, lo) :: more, r')
              | none => none
            else
              let hiO : Option (UInt8 × Bytes) :=
                if h == 0x5c then
                  match pEscape r2 with
                  | some (.lit x, r3) => some (x, r3)
                  | _ => none
                else if h < 128 then some (h, r2) else none
              match hiO with
              | none => none
              | some (hi, r3) =>
                if hi < lo then none
                else match pClassItems f false r3 with
                  | some (more, r') => some ((lo, hi) :: more, r')
                  | none => none
          | _ =>
            match pClassItems f false r with
            | some (more, r') => some ((lo, lo) :: more, r')
            | none => none

def pClass (fl : Flags) (s : Bytes) : Option (Re × Bytes) :=
  let (neg, s) := match s with | 0x5e :: r => (true, r) | _ => (false, s)
  match pClassItems (s.length + 1) true s with
  | some (rs, rest) => some (.cls neg (if fl.i then foldR rs else rs), rest)
  | none => none

def pNat : Bytes → Nat → Nat × Bytes
  | [], acc => (acc, [])
  | c :: rest, acc => if isDigit c then pNat rest (acc * 10 + (c.toNat - 48)) else (acc, c :: rest)

def replicateCat (n : Nat) (a : Re) : Re := (List.replicate n a).foldr Re.cat .eps

/-- a{n,m}: n copies then m-n optional copies (nested, as regexp/syntax.Simplify does) -/
def optCopies : Nat → Re → Re
  | 0, _ => .eps
  | k + 1, a => .alt (.cat a (optCopies k a)) .eps

/-- `{n}`, `{n,}`, `{n,m}` right after the opening brace -/
def pCount (a : Re) (s : Bytes) : Option (Re × Bytes) :=
  match s with
  | c :: _ =>
    if !isDigit c then none else
    let (n, r) := pNat s 0
    match r with
    | 0x7d :: r' => if n ≤ 8 then some (replicateCat n a, r') else none
    | 0x2c :: 0x7d :: r' => if n ≤ 8 then some (.cat (replicateCat n a) (.star a), r') else none
    | 0x2c :: r' =>
      match r' with
      | d :: _ =>
        if !isDigit d then none else
        let (m, r2) := pNat r' 0
        match r2 with
        | 0x7d :: r3 => if n ≤ m && m ≤ 8 then some (.cat (replicateCat n a) (optCopies (m - n) a), r3) else none
        | _ => none
      | [] => none
    | _ => none
  | [] => none

def isRepStart (s : Bytes) : Bool :=
  match s with
  | c :: _ => c == 0x2a || c == 0x2b || c == 0x3f || c == 0x7b
  | [] => false

/-- one optional repetition operator after an atom (with its optional lazy `?`); a second
    operator is Go's "invalid nested repetition operator" -/
def pRep (a : Re) (s : Bytes) : Option (Re × Bytes) :=
  let r : Option (Re × Bytes) :=
    match s with
    | 0x2a :: rest => some (.star a, rest)
    | 0x2b :: rest => some (.cat a (.star a), rest)
    | 0x3f :: rest => some (.alt a .eps, rest)
    | 0x7b :: rest => pCount a rest
    | _ => some (a, s)
  match r with
  | none => none
  | some (a', rest) =>
    if rest.length == s.length then some (a', rest)    -- no operator
    else
      let rest := match rest with | 0x3f :: r => r | _ => rest
      if isRepStart rest then none else some (a', rest)

/-- `(?flags)` / `(?flags:` : returns the new flags and whether a group body follows -/
def pFlags : Nat → Bool → Flags → Bytes → Option (Flags × Bool × Bytes)
  | 0, _, _, _ => none
  | f + 1, negate, fl, s =>
    match s with
    | [] => none
    | c :: rest =>
      if c == 0x29 then some (fl, false, rest)
      else if c == 0x3a then some (fl, true, rest)
      else if c == 0x2d then (if negate then none else pFlags f true fl rest)
      else if c == 0x69 then pFlags f negate { fl with i := !negate } rest
      else if c == 0x73 then pFlags f negate { fl with s := !negate } rest
      else if c == 0x6d then pFlags f negate { fl with m := !negate } rest
      else if c == 0x55 then pFlags f negate fl rest                     -- (?U): greediness, no effect on the result
      else none

mutual
/-- alternation, up to `)` or the end -/
def pAlt : Nat → Flags → Bytes → Option (Re × Flags × Bytes)
  | 0, _, _ => none
  | f + 1, fl, s =>
    match pCat f fl s with
    | none => none
    | some (a, fl', rest) =>
      match rest with
      | 0x7c :: rest' =>
        match pAlt f fl' rest' with
        | some (b, fl'', r2) => some (.alt a b, fl'', r2)
        | none => none
      | _ => some (a, fl', rest)

def pCat : Nat → Flags → Bytes → Option (Re × Flags × Bytes)
  | 0, _, _ => none
  | f + 1, fl, s =>
    match s with
    | [] => some (.eps, fl, [])
    | c :: _ =>
      if c == 0x7c || c == 0x29 then some (.eps, fl, s)
      else
        match pPiece f fl s with
        | none => none
        | some (a, fl', rest) =>
          match pCat f fl' rest with
          | some (b, fl'', r2) => some (.cat a b, fl'', r2)
          | none => none

/-- atom + repetition; a flag group `(?i)` is an empty piece that changes the flags -/
def pPiece : Nat → Flags → Bytes → Option (Re × Flags × Bytes)
  | 0, _, _ => none
  | f + 1, fl, s =>
    match s with
    | [] => none
    | c :: rest =>
      if c == 0x28 then
        match rest with
        | 0x3f :: r1 =>
          match pFlags (r1.length + 1) false fl r1 with
          | none => none
          | some (fl2, false, r2) => some (.eps, fl2, r2)
          | some (fl2, true, r2) =>
            match pAlt f fl2 r2 with
            | some (a, _, 0x29 :: r3) =>
              match pRep a r3 with
              | some (a', r4) => some (a', fl, r4)
              | none => none
            | _ => none
        | _ =>
          match pAlt f fl rest with
          | some (a, _, 0x29 :: r3) =>
            match pRep a r3 with
            | some (a', r4) => some (a', fl, r4)
            | none => none
          | _ => none
      else
        let atom : Option (Re × Bytes) :=
          if c == 0x5b then pClass fl rest
          else if c == 0x2e then some (.cls true (if fl.s then [] else [(10, 10)]), rest)
          else if c == 0x5e then some (.asrt (if fl.m then .bol else .bot), rest)
          else if c == 0x24 then some (.asrt (if fl.m then .eol else .eot), rest)
          else if c == 0x5c then
            match pEscape rest with
            | some (.lit x, r) => some (litRe fl x, r)
            | some (.ranges neg rs, r) => some (.cls neg (if fl.i then foldR rs else rs), r)
            | some (.asrt a, r) => some (.asrt a, r)
            | none => none
          else if c == 0x2a || c == 0x2b || c == 0x3f || c == 0x7b then none
          else if c < 128 then some (litRe fl c, rest)
          else none
        match atom with
        | none => none
        | some (a, r) =>
          match pRep a r with
          | some (a', r4) => some (a', fl, r4)
          | none => none
end

/-- the whole pattern text; `none` = outside the fragment (or a Go parse error) -/
def parse (fl : Flags) (s : Bytes) : Option Re :=
  match pAlt (3 * s.length + 4) fl s with
  | some (r, _, []) => some r
  | _ => none

/-- `regexp.MustCompile(pat).MatchString(subject)` -/
def matchString (pat subject : Bytes) : Option Bool := (parse {} pat).map (search · subject)

end Coraza.Regex
