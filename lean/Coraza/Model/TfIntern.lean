/-
  internal/corazawaf/rule.go:665-690: the process-wide table of transformation chains
  (transformationIDToName / transformationNameToID) and Rule.AddTransformation.
-/
import Coraza.Base.Bytes
namespace Coraza.Engine

def findChain (tbl : List (List String)) (c : List String) : Option Nat :=
  (List.range tbl.length).find? (fun i => tbl.getD i [] == c)

/-- rule.go:673 transformationID over the process-wide table: entry `id` is the chain (the list of
    transformation names) that `id` denotes; entry 0 is the empty chain. The Go table keys by the
    names joined with '+', which is the same thing for names without a '+'. -/
def internTf (tbl : List (List String)) (cur : Nat) (name : String) : List (List String) × Nat :=
  match findChain tbl (tbl.getD cur [] ++ [name]) with
  | some id => (tbl, id)
  | none => (tbl ++ [tbl.getD cur [] ++ [name]], tbl.length)

/-- Rule.AddTransformation for every name of a list: the table afterwards and the prefix ids -/
def internAll (tbl : List (List String)) (cur : Nat) : List String → List (List String) × List Nat
  | [] => (tbl, [])
  | t :: ts =>
    let r1 := internTf tbl cur t
    let r2 := internAll r1.1 r1.2 ts
    (r2.1, r1.2 :: r2.2)

end Coraza.Engine
