/-
  The @rx prefilter (C11): internal/operators/rxprefilter.go — minLen, extractLiterals,
  trieReconstruct, rawExtractSuffixes, rawLiteral, hasFlag, anchors, filterShort/anyTooShort,
  buildMultiNeedlePF, buildCombinedPF, the Wu-Manber indexedMatcher, the ASCII-fold helpers,
  prefilterFunc's guards, extractExactMatch — over the regexp/syntax tree after Simplify.

  `none` from `prefilterOf` = no prefilter is built (the regex always runs). Literals that Go
  lower-cases by rune (non-ASCII under (?i)) are outside the model (`unm`).
-/
import Coraza.Base.Bytes
namespace Coraza.Rx
open Coraza

/-- regexp/syntax.Regexp after Simplify; `f` = the FoldCase flag of the node -/
inductive Re where
  | nomatch (f : Bool)
  | empty (f : Bool)
  | lit (f : Bool) (runes : List Nat)
  | cc (f : Bool) (ranges : List Nat)
  | anynl (f : Bool)
  | any (f : Bool)
  | bol (f : Bool) | eol (f : Bool) | bot (f : Bool) | eot (f : Bool) | wb (f : Bool) | nwb (f : Bool)
  | cap (f : Bool) (r : Re)
  | star (f : Bool) (r : Re)
  | plus (f : Bool) (r : Re)
  | quest (f : Bool) (r : Re)
  | rep (f : Bool) (min : Nat) (max : Int) (r : Re)
  | cat (f : Bool) (rs : List Re)
  | alt (f : Bool) (rs : List Re)
deriving Repr

def runeError : Nat := 0xFFFD

/-- utf8.RuneLen for the runes a literal can hold -/
def runeLen (r : Nat) : Nat := if r < 0x80 then 1 else if r < 0x800 then 2 else if r < 0x10000 then 3 else 4

/-- UTF-8 encoding of a rune -/
def encodeRune (r : Nat) : Bytes :=
  if r < 0x80 then [r.toUInt8]
  else if r < 0x800 then [(0xC0 + r / 64).toUInt8, (0x80 + r % 64).toUInt8]
  else if r < 0x10000 then [(0xE0 + r / 4096).toUInt8, (0x80 + r / 64 % 64).toUInt8, (0x80 + r % 64).toUInt8]
  else [(0xF0 + r / 262144).toUInt8, (0x80 + r / 4096 % 64).toUInt8, (0x80 + r / 64 % 64).toUInt8, (0x80 + r % 64).toUInt8]

def encodeRunes (rs : List Nat) : Bytes := rs.flatMap encodeRune

/-! ## minLen (rxprefilter.go:90) -/

def litMinLen : List Nat → Nat
  | [] => 0
  | r :: rs => (if r == runeError then 1 else runeLen r) + litMinLen rs

mutual
def minLen : Re → Nat
  | .lit _ rs => litMinLen rs
  | .anynl _ | .any _ | .cc _ _ => 1
  | .cap _ r => minLen r
  | .cat _ rs => minLenSum rs
  | .alt _ rs => match rs with
    | [] => 0
    | r :: rest => minLenMin rest (minLen r)
  | .quest _ _ | .star _ _ => 0
  | .plus _ r => minLen r
  | .rep _ mn _ r => if mn == 0 then 0 else mn * minLen r
  | _ => 0
def minLenSum : List Re → Nat
  | [] => 0
  | r :: rs => minLen r + minLenSum rs
def minLenMin : List Re → Nat → Nat
  | [], m => m
  | r :: rs, m => minLenMin rs (if minLen r < m then minLen r else m)
end

/-! ## flags -/

mutual
def hasFold : Re → Bool
  | .nomatch f | .empty f | .lit f _ | .cc f _ | .anynl f | .any f
  | .bol f | .eol f | .bot f | .eot f | .wb f | .nwb f => f
  | .cap f r | .star f r | .plus f r | .quest f r | .rep f _ _ r => f || hasFold r
  | .cat f rs | .alt f rs => f || hasFoldList rs
def hasFoldList : List Re → Bool
  | [] => false
  | r :: rs => hasFold r || hasFoldList rs
end

/-! ## literals -/

inductive Lits where
  | all (ls : List Bytes)
  | any (ls : List Bytes)
  | combined (all any : List Bytes)
deriving Repr, DecidableEq

/-- what the analysis returns: literals, nothing, or "outside the model" -/
inductive R (α : Type) where
  | some (a : α) | nil | unm
deriving Repr, DecidableEq

def allAsciiRunes (rs : List Nat) : Bool := rs.all (· < 128)

/-- unicode.ToLower on the part of Unicode the model carries (ASCII, Latin-1, basic Greek, a few
    specials); `none` = outside -/
def toLowerRune (r : Nat) : Option Nat :=
  if r < 0x80 then some (if 0x41 ≤ r && r ≤ 0x5a then r + 32 else r)
  else if r == 0xB5 || (0xDF ≤ r && r ≤ 0xFF) || r == 0xD7 then some r
  else if 0xC0 ≤ r && r ≤ 0xDE then some (r + 32)
  else if (0x391 ≤ r && r ≤ 0x3A1) || (0x3A3 ≤ r && r ≤ 0x3A9) then some (r + 32)
  else if 0x3B1 ≤ r && r ≤ 0x3C9 then some r
  else if r == 0x1C4 || r == 0x1C5 || r == 0x1C6 then some 0x1C6
  else if r == 0x17F then some r
  else if r == 0x212A then some 0x6B
  else none

/-- string(re.Rune), lower-cased (strings.ToLower) under ci -/
def litString (rs : List Nat) (ci : Bool) : R Bytes :=
  if rs.any (· == runeError) then .nil
  else if ci then
    (match rs.mapM toLowerRune with
     | some ls => .some (encodeRunes ls)
     | none => .unm)
  else .some (encodeRunes rs)

/-- rawLiteral: "" (nil) when not a valid literal -/
def rawLiteral (re : Re) (ci : Bool) : R Bytes :=
  match re with
  | .lit _ rs => (match litString rs ci with
    | .some s => if s.isEmpty then .nil else .some s
    | x => x)
  | _ => .nil

def longest : List Bytes → Bytes
  | [] => []
  | s :: ss => ss.foldl (fun best x => if x.length > best.length then x else best) s

def anyTooShort (ss : List Bytes) (n : Nat) : Bool := ss.any (·.length < n)
def filterShort (ss : List Bytes) (n : Nat) : List Bytes := ss.filter (·.length ≥ n)

/-- state of the OpConcat loop of extractLiterals -/
structure CatAcc where
  all : List Bytes := []
  bestAny : Option (List Bytes) := none

def catStep (acc : CatAcc) (l : R Lits) : R CatAcc :=
  match l with
  | .unm => .unm
  | .nil => .some acc
  | .some (.all v) => .some { acc with all := acc.all ++ v }
  | .some (.any v) =>
    .some (match acc.bestAny with
      | none => { acc with bestAny := some v }
      | some b => if v.length < b.length then { acc with bestAny := some v } else acc)
  | .some (.combined _ _) => .some acc          -- a combinedRequired child is ignored by the type switch

def isLit : Re → Bool
  | .lit _ _ => true
  | _ => false

/-- trieReconstruct given its two ingredients: the raw prefix literal and what every match of the
    second child begins with -/
def trieOf (pl : R Bytes) (sf : R (List Bytes)) : R (List Bytes) :=
  match pl with
  | .unm => .unm
  | .nil => .nil
  | .some pfx =>
    match sf with
    | .unm => .unm
    | .nil => .nil
    | .some sufs => if sufs.isEmpty then .nil else .some (sufs.map (pfx ++ ·))

def fallbackAny (acc : CatAcc) : R Lits :=
  match acc.bestAny with
  | some b => .some (.any b)
  | none => .nil

/-- the end of the OpConcat case of extractLiterals -/
def catFinish (accR : R CatAcc) (trie : R (List Bytes)) : R Lits :=
  match accR with
  | .unm => .unm
  | .nil => .nil
  | .some acc =>
    if !acc.all.isEmpty then
      (match acc.bestAny with
       | some b => if !anyTooShort b 2 then .some (.combined acc.all b) else .some (.all acc.all)
       | none => .some (.all acc.all))
    else
      (match trie with
       | .unm => .unm
       | .some t => .some (.any t)
       | .nil => fallbackAny acc)

/-- the representative(s) a branch contributes to the parent alternation -/
def altRep : Lits → List Bytes
  | .all v => [longest v]
  | .any v => v
  | .combined _ a => a

def sufFirst (fs : R (List Bytes)) : R (List Bytes) :=
  match fs with
  | .some l => if l.isEmpty then .nil else .some l
  | x => x

/-- rawExtractSuffixes on a two-child concat: [literal, second] extends the literal -/
def sufPair (firstIsLit : Bool) (fs sec : R (List Bytes)) : R (List Bytes) :=
  match sufFirst fs with
  | .some l =>
    if firstIsLit then
      (match sec with
       | .unm => .unm
       | .some rest => if rest.isEmpty then .some l else .some (rest.map (l.headD [] ++ ·))
       | .nil => .some l)
    else .some l
  | x => x

mutual
/-- extractLiterals (rxprefilter.go:347) -/
def extract (ci : Bool) : Re → R Lits
  | .lit _ rs =>
    (match litString rs ci with
     | .some s => if s.length < 2 then .nil else .some (.all [s])
     | .nil => .nil
     | .unm => .unm)
  | .cap _ r => extract ci r
  | .cat _ rs =>
    catFinish (extractCat ci rs {})
      (match rs with
       | [p, rest] => trieOf (rawLiteral p ci) (rawSuffixes ci rest)
       | _ => .nil)
  | .alt _ rs =>
    (match extractAlt ci rs with
     | .unm => .unm
     | .nil => .nil
     | .some ls => if ls.isEmpty then .nil else .some (.any ls))
  | .plus _ r => extract ci r
  | .rep _ mn _ r => if mn ≥ 1 then extract ci r else .nil
  | _ => .nil
def extractCat (ci : Bool) : List Re → CatAcc → R CatAcc
  | [], acc => .some acc
  | r :: rs, acc =>
    match catStep acc (extract ci r) with
    | .some acc' => extractCat ci rs acc'
    | .nil => .nil
    | .unm => .unm
/-- the OpAlternate loop: one representative (or set) per branch, nil if a branch has none -/
def extractAlt (ci : Bool) : List Re → R (List Bytes)
  | [] => .some []
  | r :: rs =>
    match extract ci r with
    | .unm => .unm
    | .nil => .nil
    | .some l =>
      match extractAlt ci rs with
      | .some rest => .some (altRep l ++ rest)
      | .nil => .nil
      | .unm => .unm
/-- rawExtractSuffixes: the literals every match of the subtree begins with -/
def rawSuffixes (ci : Bool) : Re → R (List Bytes)
  | .lit f rs => (match rawLiteral (.lit f rs) ci with
    | .some s => .some [s]
    | .nil => .nil
    | .unm => .unm)
  | .alt _ rs => rawSuffixesAlt ci rs
  | .cat _ rs =>
    (match rs with
     | [] => .nil
     | [a] => sufFirst (rawSuffixes ci a)
     | [a, b] => sufPair (isLit a) (rawSuffixes ci a) (rawSuffixes ci b)
     | a :: _ :: _ :: _ => sufFirst (rawSuffixes ci a))
  | .cap _ r => rawSuffixes ci r
  | _ => .nil
def rawSuffixesAlt (ci : Bool) : List Re → R (List Bytes)
  | [] => .some []
  | r :: rs =>
    match rawSuffixes ci r with
    | .unm => .unm
    | .nil => .nil
    | .some l =>
      if l.isEmpty then .nil else
      match rawSuffixesAlt ci rs with
      | .some rest => .some (l ++ rest)
      | .nil => .nil
      | .unm => .unm
end

/-- the trie-reconstruction argument of the OpConcat case, by shape of the concat -/
def trieFor (ci : Bool) : List Re → R (List Bytes)
  | [p, rest] => trieOf (rawLiteral p ci) (rawSuffixes ci rest)
  | _ => .nil

theorem extract_cat (ci f : Bool) (rs : List Re) :
    extract ci (.cat f rs) = catFinish (extractCat ci rs {}) (trieFor ci rs) := by
  match rs with
  | [] => simp [extract, trieFor]
  | [_] => simp [extract, trieFor]
  | [_, _] => simp [extract, trieFor]
  | _ :: _ :: _ :: _ => simp [extract, trieFor]

/-- rawExtractSuffixes on a concat, by shape -/
def sufCat (ci : Bool) : List Re → R (List Bytes)
  | [] => .nil
  | [a] => sufFirst (rawSuffixes ci a)
  | [a, b] => sufPair (isLit a) (rawSuffixes ci a) (rawSuffixes ci b)
  | a :: _ :: _ :: _ => sufFirst (rawSuffixes ci a)

theorem rawSuffixes_cat (ci f : Bool) (rs : List Re) : rawSuffixes ci (.cat f rs) = sufCat ci rs := by
  match rs with
  | [] => simp [rawSuffixes, sufCat]
  | [_] => simp [rawSuffixes, sufCat]
  | [_, _] => simp [rawSuffixes, sufCat]
  | _ :: _ :: _ :: _ => simp [rawSuffixes, sufCat]

/-! ## anchors -/

def unwrapCap : Re → Re
  | .cap _ r => unwrapCap r
  | r => r

def keeps (ci : Bool) (r : Re) : Bool :=
  isLit r && (match extract ci r with | .some _ => true | _ => false)

/-- literalAfterBeginAnchor -/
def litAfterBegin (ci : Bool) (re : Re) : Bool :=
  match unwrapCap re with
  | .cat _ (.bot _ :: second :: _) => keeps ci second
  | _ => false

/-- literalBeforeEndAnchor -/
def litBeforeEnd (ci : Bool) (re : Re) : Bool :=
  match unwrapCap re with
  | .cat _ rs =>
    (match rs.reverse with
     | .eot _ :: before :: _ => keeps ci before
     | _ => false)
  | _ => false

/-! ## the matchers -/

def isAsciiBytes (s : Bytes) : Bool := s.all (· < 128)

/-- equalFoldASCIIBytes: a is folded, b is already lower case; equal length assumed -/
def equalFold : Bytes → Bytes → Bool
  | [], [] => true
  | a :: as, b :: bs => asciiLower a == b && equalFold as bs
  | _, _ => false

def hasPrefixB (s p : Bytes) : Bool := p.isPrefixOf s
def hasPrefixFold (s p : Bytes) : Bool := s.length ≥ p.length && equalFold (s.take p.length) p

def containsB : Bytes → Bytes → Bool
  | [], n => n.isEmpty
  | s@(_ :: t), n => n.isPrefixOf s || containsB t n

def containsFoldOnly : Bytes → Bytes → Bool
  | [], n => n.isEmpty
  | s@(_ :: t), n => hasPrefixFold s n || containsFoldOnly t n

/-- containsFoldASCII: a non-ASCII needle answers "maybe" -/
def containsFold (s needle : Bytes) : Bool :=
  if needle.isEmpty then true
  else if s.length < needle.length then false
  else if isAsciiBytes needle then containsFoldOnly s needle else true

/-- Wu-Manber matcher (rxprefilter.go:768) -/
structure IM where
  needles : List Bytes       -- lower-cased when ci
  minLen : Nat
  ci : Bool

def newIM (needles : List Bytes) (ci : Bool) : IM :=
  let ns := if ci then needles.map (·.map asciiLower) else needles
  { needles := ns, minLen := (ns.map List.length).foldl min (ns.headD []).length, ci := ci }

/-- does needle byte x set the table entry of input byte c? (CI: the upper-case twin too) -/
def IM.hit (m : IM) (x c : UInt8) : Bool := x == c || (m.ci && 0x61 ≤ x && x ≤ 0x7a && x - 32 == c)

/-- the shift distances the needles propose for byte c (uint8 arithmetic as in Go) -/
def IM.cands (m : IM) (c : UInt8) : List Nat :=
  m.needles.flatMap (fun n => (List.range m.minLen).filterMap (fun j =>
    match n[j]? with
    | some x => if m.hit x c then some ((m.minLen - 1 - j) % 256) else none
    | none => none))

/-- shift[c]: the table entry, computed on demand -/
def IM.shift (m : IM) (c : UInt8) : Nat :=
  (m.cands c).foldl min (if m.minLen > 255 then 255 else m.minLen)

def IM.bucket (m : IM) (c : UInt8) : List Bytes :=
  m.needles.filter (fun n => n[m.minLen - 1]? == some c)

/-- the scan loop; `i` is the index of the window's right edge; fuel = bytes left to look at -/
def IM.scan (m : IM) (s : Bytes) : Nat → Nat → Bool
  | 0, _ => false
  | fuel + 1, i =>
    match s[i]? with
    | none => false
    | some b =>
      let sh := m.shift b
      if sh != 0 then m.scan s fuel (i + sh)
      else
        let lb := if m.ci then asciiLower b else b
        let pos := i + 1 - m.minLen
        if (m.bucket lb).any (fun n =>
            pos + n.length ≤ s.length &&
            (if m.ci then equalFold ((s.drop pos).take n.length) n else (s.drop pos).take n.length == n)) then true
        else m.scan s fuel (i + 1)

def IM.matches (m : IM) (s : Bytes) : Bool :=
  if m.minLen == 0 || s.length < m.minLen then false
  else m.scan s (s.length + 1) (m.minLen - 1)

/-! ## the prefilter as data -/

inductive PF where
  | multi (ci : Bool) (pre suf : Bytes) (middle : List Bytes)
  | single (ci : Bool) (needle : Bytes)
  | im (m : IM)
  | both (a b : PF)
  | lenOnly

def PF.eval : PF → Bytes → Bool
  | .multi ci pre suf mid, s =>
    if ci then
      (pre.isEmpty || hasPrefixFold s pre) &&
      (suf.isEmpty || (s.length ≥ suf.length && equalFold (s.drop (s.length - suf.length)) suf)) &&
      mid.all (containsFold s)
    else
      (pre.isEmpty || hasPrefixB s pre) &&
      (suf.isEmpty || (s.length ≥ suf.length && s.drop (s.length - suf.length) == suf)) &&
      mid.all (containsB s)
  | .single ci n, s => if ci then containsFold s n else containsB s n
  | .im m, s => m.matches s
  | .both a b, s => a.eval s && b.eval s
  | .lenOnly, _ => true

/-- buildMultiNeedlePF -/
def buildMulti (needles : List Bytes) (ci usePrefix useSuffix : Bool) : Option PF :=
  if needles.isEmpty then none
  else
    let first := needles.headD []
    let last := needles.getLastD []
    if usePrefix && useSuffix && needles.length ≥ 2 then some (.multi ci first last (needles.drop 1).dropLast)
    else if usePrefix && useSuffix then some (.multi ci first [] [])
    else if usePrefix then some (.multi ci first [] (needles.drop 1))
    else if useSuffix then some (.multi ci [] last needles.dropLast)
    else some (.multi ci [] [] needles)

def anyRequiredMaxN : Nat := 256

/-- the anyRequired arm of prefilterFunc / buildCombinedPF; `none` = give up on this part -/
def buildAny (v : List Bytes) (ci : Bool) : Option PF :=
  if v.length == 1 then some (.single ci (v.headD []))
  else if v.length ≤ anyRequiredMaxN then some (.im (newIM v ci))
  else none

structure Prefilter where
  mml : Nat
  guardLen : Bool          -- len(s) >= mml prepended
  guardAscii : Bool        -- non-ASCII input passes
  inner : PF

def Prefilter.eval (p : Prefilter) (s : Bytes) : Bool :=
  if p.guardAscii && !isAsciiBytes s then true
  else (!p.guardLen || s.length ≥ p.mml) && p.inner.eval s

def allAsciiList (ss : List Bytes) : Bool := ss.all isAsciiBytes

/-- the all-required matcher of prefilterFunc / buildCombinedPF -/
def allPF (ci : Bool) (re : Re) (v : List Bytes) : Option PF :=
  if (filterShort v 2).isEmpty then none
  else buildMulti (filterShort v 2) ci (litAfterBegin ci re && decide ((v.headD []).length ≥ 2))
        (litBeforeEnd ci re && decide ((v.getLastD []).length ≥ 2))

/-- the literal matcher prefilterFunc builds for each kind of result (`none` = no prefilter) -/
def innerPF (ci : Bool) (re : Re) : Lits → Option PF
  | .all v => allPF ci re v
  | .combined a y =>
    if ci && !allAsciiList y then allPF ci re a
    else
      (match buildAny y ci with
       | none => allPF ci re a
       | some anyPF => (match allPF ci re a with | none => some anyPF | some o => some (.both o anyPF)))
  | .any v =>
    if anyTooShort v 2 then none
    else if v.length == 1 then buildAny v ci
    else if ci && !allAsciiList v then none
    else buildAny v ci

/-- prefilterFunc (rxprefilter.go:157) on the simplified tree -/
def prefilterOf (re : Re) : R Prefilter :=
  let ci := hasFold re
  let mml := minLen re
  match extract ci re with
  | .unm => .unm
  | .nil => if mml ≥ 4 then .some { mml := mml, guardLen := true, guardAscii := false, inner := .lenOnly } else .nil
  | .some lits =>
    match innerPF ci re lits with
    | none => .nil
    | some inner => .some { mml := mml, guardLen := mml ≥ 4, guardAscii := ci, inner := inner }

/-- extractExactMatch on the tree of the pattern as written -/
def exactMatch (re : Re) : Option (List Nat × Bool) :=
  match unwrapCap re with
  | .cat _ [.bot _, .lit f rs, .eot _] => if rs.any (· == runeError) then none else if rs.isEmpty then none else some (rs, f)
  | _ => none

end Coraza.Rx
