/-
  internal/bodyprocessors/xml.go: readXML — an XML document (as a tree; the text is produced from
  the tree by an independent encoder in the harness, encoding/xml's tokenisation of *well-formed*
  XML is the assumed contract) exposed as the two lists of the XML collection:

    XML://@*   every attribute value, in document order (start tags in the order they open)
    XML:/*     every piece of character data and every CDATA section, each trimmed of surrounding
               white space, the empty ones left out, in document order
-/
import Coraza.Base.Bytes
namespace Coraza.Xml
open Coraza

inductive X
  | elem (attrs : List Bytes) (kids : List X)  -- attribute values in the order written
  | text (s : Bytes)                           -- character data between two pieces of markup, references resolved
  | cdata (s : Bytes)
  | other                                      -- comment, processing instruction: carries no data

/-- `unicode.IsSpace` on ASCII (the generator's values have no other white space) -/
def isSpace (b : UInt8) : Bool := b == 0x20 || (9 ≤ b && b ≤ 13)

/-- `strings.TrimSpace` -/
def trimSpace (s : Bytes) : Bytes := ((s.dropWhile isSpace).reverse.dropWhile isSpace).reverse

mutual
/-- xml.go:49 — the attribute values of every start tag, in document order -/
def attrsOf : X → List Bytes
  | .elem as kids => as ++ attrsOfList kids
  | _ => []
def attrsOfList : List X → List Bytes
  | [] => []
  | x :: xs => attrsOf x ++ attrsOfList xs
end

mutual
/-- xml.go:53 — trimmed, non-empty character data, in document order -/
def contentsOf : X → List Bytes
  | .elem _ kids => contentsOfList kids
  | .text s => if trimSpace s = [] then [] else [trimSpace s]
  | .cdata s => if trimSpace s = [] then [] else [trimSpace s]
  | .other => []
def contentsOfList : List X → List Bytes
  | [] => []
  | x :: xs => contentsOf x ++ contentsOfList xs
end

/-- readXML on a well-formed document: (//@*, /*) -/
def readXML (root : X) : List Bytes × List Bytes := (attrsOf root, contentsOf root)

end Coraza.Xml
