/-
  internal/bodyprocessors/multipart.go ProcessRequest on a well-formed multipart/form-data body,
  as a function of its parts (the text is produced from the parts by an independent encoder in the
  harness; mime/multipart's reading of well-formed text is the assumed contract).
-/
import Coraza.Model.Engine
namespace Coraza.Multipart
open Coraza Coraza.Engine

structure Part where
  name : Bytes
  filename : Option Bytes      -- some f (non-empty) = a file part
  data : Bytes

def isFile (p : Part) : Bool := match p.filename with | some f => !f.isEmpty | none => false

/-- ARGS_POST: the fields, in order (`postCol.Add(p.FormName(), data)`) -/
def argsPost (ps : List Part) : List (Bytes × Bytes) :=
  (ps.filter (fun p => !isFile p)).map fun p => (p.name, p.data)

/-- FILES: the file names, FILES_NAMES: their form names (both stored under the empty key) -/
def files (ps : List Part) : List Bytes := (ps.filter isFile).filterMap (·.filename)
def filesNames (ps : List Part) : List Bytes := (ps.filter isFile).map (·.name)

/-- FILES_SIZES: `SetIndex(filename, 0, size)` on a case-insensitive map — one entry per folded file
    name, the last file of that name wins, stored with that file's spelling of the name -/
def filesSizes (ps : List Part) : List (Bytes × Bytes) :=
  let fs := (ps.filter isFile).filterMap fun p => p.filename.map fun f => (f, natToBytes p.data.length)
  let rec dedup : List (Bytes × Bytes) → List (Bytes × Bytes)
    | [] => []
    | (k, v) :: es => if es.any (fun e => lower e.1 == lower k) then dedup es else (k, v) :: dedup es
  dedup fs

/-- FILES_COMBINED_SIZE: total size of all parts, fields included (the code adds both) -/
def combinedSize (ps : List Part) : Nat := (ps.map (·.data.length)).sum

end Coraza.Multipart
