/-
  Executable models of internal/operators/*.go (C15): the Go algorithm of each operator
  on an already macro-expanded argument. `none` = the operator factory returns an error.
-/
import Coraza.Base.Bytes
namespace Coraza.Op
open Coraza

/-! ### naive searches (what strings.HasPrefix / HasSuffix / Contains compute) -/

def isPrefixB : Bytes → Bytes → Bool
  | [], _ => true
  | _ :: _, [] => false
  | a :: as, b :: bs => a == b && isPrefixB as bs

/-- naive substring search: try every start offset -/
def isInfixB (p : Bytes) : Bytes → Bool
  | [] => p.isEmpty
  | b :: bs => isPrefixB p (b :: bs) || isInfixB p bs

def isSuffixB (p v : Bytes) : Bool := isPrefixB p.reverse v.reverse

/-! ### strconv.Atoi as used with the error dropped (`d, _ := strconv.Atoi(s)`) -/

def isDigit (b : UInt8) : Bool := 48 ≤ b && b ≤ 57

/-- strconv.ParseUint(s, 10, 64) scanning left to right: an invalid byte met before the
    value overflows 64 bits is a syntax error; overflow met first is a range error. -/
inductive Scan | syntax | range | val (n : Nat)
deriving Repr, DecidableEq

def scanDigits : Bytes → Nat → Scan
  | [], acc => .val acc
  | d :: ds, acc =>
    if !isDigit d then .syntax
    else
      let acc' := acc * 10 + (d.toNat - 48)
      if acc' ≥ 18446744073709551616 then .range else scanDigits ds acc'

def maxInt64 : Int := 9223372036854775807
def minInt64 : Int := -9223372036854775808

/-- strconv.Atoi with the error dropped (`d, _ := strconv.Atoi(s)`): syntax error ⇒ 0;
    range error ⇒ the extreme value (ParseInt returns it together with ErrRange). -/
def atoi (s : Bytes) : Int :=
  match s with
  | [] => 0
  | c :: rest =>
    let neg := c == 0x2d
    let ds := if c == 0x2d || c == 0x2b then rest else s
    if ds.isEmpty then 0
    else match scanDigits ds 0 with
      | .syntax => 0
      | .range => if neg then minInt64 else maxInt64
      | .val n =>
        let n : Int := n
        if neg then (if n > 9223372036854775808 then minInt64 else -n)
        else (if n > maxInt64 then maxInt64 else n)

/-- strconv.Atoi with the error kept: `none` on syntax or range error (validateByteRange) -/
def atoiStrict (s : Bytes) : Option Int :=
  match s with
  | [] => none
  | c :: rest =>
    let neg := c == 0x2d
    let ds := if c == 0x2d || c == 0x2b then rest else s
    if ds.isEmpty then none
    else match scanDigits ds 0 with
      | .syntax => none
      | .range => none
      | .val n =>
        let n : Int := n
        if neg then (if n > 9223372036854775808 then none else some (-n))
        else (if n > maxInt64 then none else some n)

/-! ### the string and numeric operators (streq.go, contains.go, …, eq.go, ge.go, gt.go, le.go, lt.go) -/

def streq (data v : Bytes) : Bool := data == v
def contains (data v : Bytes) : Bool := isInfixB data v
def beginsWith (data v : Bytes) : Bool := isPrefixB data v
def endsWith (data v : Bytes) : Bool := isSuffixB data v
def within (data v : Bytes) : Bool := isInfixB v data
def eq (data v : Bytes) : Bool := atoi data == atoi v
def ge (data v : Bytes) : Bool := atoi v ≥ atoi data
def gt (data v : Bytes) : Bool := atoi data < atoi v
def le (data v : Bytes) : Bool := atoi v ≤ atoi data
def lt (data v : Bytes) : Bool := atoi v < atoi data

/-! ### validateUrlEncoding (validate_url_encoding.go:38) -/

def isHexDigit (c : UInt8) : Bool :=
  (48 ≤ c && c ≤ 57) || (97 ≤ c && c ≤ 102) || (65 ≤ c && c ≤ 70)

/-- true = valid. Loop of validateURLEncodingInternal, by structural recursion. -/
def urlEncValid : Bytes → Bool
  | [] => true
  | b :: tl =>
    if b != 0x25 then urlEncValid tl
    else match tl with
      | c1 :: c2 :: rest => if isHexDigit c1 && isHexDigit c2 then urlEncValid rest else false
      | [_] => false
      | [] => false

def validateUrlEncoding (v : Bytes) : Bool := !v.isEmpty && !urlEncValid v

/-! ### validateUtf8Encoding: `!utf8.ValidString(v)`; utf8.ValidString's acceptance table -/

def cont (b : UInt8) : Bool := 0x80 ≤ b && b ≤ 0xBF

def utf8Valid : Bytes → Bool
  | [] => true
  | b0 :: tl =>
    if b0 < 0x80 then utf8Valid tl
    else if 0xC2 ≤ b0 && b0 ≤ 0xDF then
      match tl with
      | b1 :: r => cont b1 && utf8Valid r
      | [] => false
    else if 0xE0 ≤ b0 && b0 ≤ 0xEF then
      match tl with
      | b1 :: b2 :: r =>
        (if b0 == 0xE0 then 0xA0 ≤ b1 && b1 ≤ 0xBF
         else if b0 == 0xED then 0x80 ≤ b1 && b1 ≤ 0x9F
         else cont b1) && cont b2 && utf8Valid r
      | [_] => false
      | [] => false
    else if 0xF0 ≤ b0 && b0 ≤ 0xF4 then
      match tl with
      | b1 :: b2 :: b3 :: r =>
        (if b0 == 0xF0 then 0x90 ≤ b1 && b1 ≤ 0xBF
         else if b0 == 0xF4 then 0x80 ≤ b1 && b1 ≤ 0x8F
         else cont b1) && cont b2 && cont b3 && utf8Valid r
      | [_, _] => false
      | [_] => false
      | [] => false
    else false

def validateUtf8Encoding (v : Bytes) : Bool := !utf8Valid v

/-! ### validateByteRange (validate_byte_range.go) for ASCII argument text -/

def isAsciiSpace (b : UInt8) : Bool :=
  b == 0x20 || b == 0x09 || b == 0x0a || b == 0x0b || b == 0x0c || b == 0x0d

def trimSpaceAscii (s : Bytes) : Bytes := ((s.dropWhile isAsciiSpace).reverse.dropWhile isAsciiSpace).reverse

/-- strings.Split on one separator byte -/
def splitOn (sep : UInt8) : Bytes → List Bytes
  | [] => [[]]
  | b :: tl =>
    match splitOn sep tl with
    | [] => [[]]   -- unreachable: splitOn never returns []
    | hd :: rest => if b == sep then [] :: hd :: rest else (b :: hd) :: rest

/-- strings.Cut(s, "-") -/
def cutDash : Bytes → Option (Bytes × Bytes)
  | [] => none
  | b :: tl =>
    if b == 0x2d then some ([], tl)
    else match cutDash tl with
      | some (a, r) => some (b :: a, r)
      | none => none

def validByte (n : Int) : Bool := 0 ≤ n && n ≤ 255

/-- one comma-separated item → inclusive range; `none` = factory error -/
def parseRange (item : Bytes) : Option (Nat × Nat) :=
  let br := trimSpaceAscii item
  match cutDash br with
  | none =>
    match atoiStrict br with
    | some b => if validByte b then some (b.toNat, b.toNat) else none
    | none => none
  | some (s, e) =>
    match atoiStrict s with
    | none => none
    | some sv =>
      if !validByte sv then none else
      match atoiStrict e with
      | none => none
      | some ev => if validByte ev then some (sv.toNat, ev.toNat) else none

def parseRanges : List Bytes → Option (List (Nat × Nat))
  | [] => some []
  | it :: rest =>
    match parseRange it, parseRanges rest with
    | some r, some rs => some (r :: rs)
    | _, _ => none

def inRanges (rs : List (Nat × Nat)) (b : UInt8) : Bool :=
  rs.any (fun r => r.1 ≤ b.toNat && b.toNat ≤ r.2)

/-- `none` = factory error; empty argument = unconditionalMatch (line 25) -/
def validateByteRange (arg v : Bytes) : Option Bool :=
  if arg.isEmpty then some true else
  match parseRanges (splitOn 0x2c arg) with
  | none => none
  | some rs => some (!v.isEmpty && v.any (fun b => !inRanges rs b))

/-! ### @pm (pm.go): ASCII phrases; Aho-Corasick is a parameter with the contract
    "reports a match iff some pattern is an ASCII-case-insensitive infix" -/

def foldEq (a b : UInt8) : Bool := asciiLower a == asciiLower b

def isPrefixFold : Bytes → Bytes → Bool
  | [], _ => true
  | _ :: _, [] => false
  | a :: as, b :: bs => foldEq a b && isPrefixFold as bs

def isInfixFold (p : Bytes) : Bytes → Bool
  | [] => p.isEmpty
  | b :: bs => isPrefixFold p (b :: bs) || isInfixFold p bs

/-- pm.go:47 minPatternLen -/
def minPatternLen : List Bytes → Nat
  | [] => 0
  | ps => if ps.any (·.isEmpty) then 0 else ps.foldl (fun m p => if m == 0 || p.length < m then p.length else m) 0

/-- the contract assumed of the Aho-Corasick matcher (built from non-empty patterns):
    a match is reported iff some pattern is an ASCII-case-insensitive infix -/
def acMatches (dict : List Bytes) (v : Bytes) : Bool := dict.any (fun p => isInfixFold p v)

/-- pm.go newPM: lower-case, split on spaces, drop empty phrases -/
def pmDict (arg : Bytes) : List Bytes := (splitOn 0x20 (arg.map asciiLower)).filter (fun p => !p.isEmpty)

def pm (arg v : Bytes) : Bool :=
  let dict := pmDict arg
  if v.length < minPatternLen dict then false else acMatches dict v

/-- bufio.Scanner lines: split on LF, one trailing CR dropped (a final line without LF counts) -/
def scanLines (data : Bytes) : List Bytes :=
  let ls := splitOn 0x0a data
  let ls := if ls.getLast? == some [] then ls.dropLast else ls
  ls.map fun l => if l.getLast? == some 0x0d then l.dropLast else l

def isSpaceB (b : UInt8) : Bool := b == 0x20 || (9 ≤ b && b ≤ 13)
def trimSpaceB (s : Bytes) : Bytes := ((s.dropWhile isSpaceB).reverse.dropWhile isSpaceB).reverse

/-- pm_from_file.go:46-58: the phrases of a data file — trimmed lines, empty lines and `#` comments left out, lower-cased -/
def pmFileDict (data : Bytes) : List Bytes :=
  ((scanLines data).map trimSpaceB).filter (fun l => !l.isEmpty && l.head? != some 0x23) |>.map (·.map asciiLower)

/-- @pmFromFile on the content of its file (ASCII) -/
def pmFromFile (data v : Bytes) : Bool :=
  let dict := pmFileDict data
  if v.length < minPatternLen dict then false else acMatches dict v

/-- @pmFromDataset on the phrases of its dataset -/
def pmFromDataset (dict : List Bytes) (v : Bytes) : Bool :=
  if v.length < minPatternLen dict then false else acMatches dict v

end Coraza.Op
