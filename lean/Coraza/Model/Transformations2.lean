/-
  More executable models of internal/transformations/*.go (C14): jsDecode, cmdLine,
  removeCommentsChar, compressWhitespace and removeWhitespace (on ASCII input).
-/
import Coraza.Model.Transformations
namespace Coraza.Tf
open Coraza

def isODigit (b : UInt8) : Bool := 48 ≤ b && b ≤ 55

/-- one escape after a backslash (js_decode.go:33-108): the decoded byte and what is left.
    `e` is the byte after the backslash. -/
def jsEscape (e : UInt8) (rest : Bytes) : UInt8 × Bytes :=
  -- \uHHHH: the low byte, +0x20 for full-width ASCII
  let uni : Option (UInt8 × Bytes) :=
    if e == 0x75 then
      match rest with
      | h1 :: h2 :: h3 :: h4 :: r4 =>
        if validHex h1 && validHex h2 && validHex h3 && validHex h4 then
          let low := x2c h3 h4
          let low := if low > 0 && low < 0x5f && (h1 == 0x66 || h1 == 0x46) && (h2 == 0x66 || h2 == 0x46) then low + 0x20 else low
          some (low, r4)
        else Option.none
      | _ => Option.none
    else Option.none
  match uni with
  | some r => r
  | Option.none =>
    -- \xHH
    let hex : Option (UInt8 × Bytes) :=
      if e == 0x78 then
        match rest with
        | h1 :: h2 :: r2 => if validHex h1 && validHex h2 then some (x2c h1 h2, r2) else Option.none
        | _ => Option.none
      else Option.none
    match hex with
    | some r => r
    | Option.none =>
      if isODigit e then
        -- \OOO: up to three octal digits, two if three would exceed a byte
        let (digits, r) : Bytes × Bytes :=
          match rest with
          | d2 :: r2 =>
            if isODigit d2 then
              match r2 with
              | d3 :: r3 => if isODigit d3 && e ≤ 0x33 then ([e, d2, d3], r3) else ([e, d2], r2)
              | [] => ([e, d2], [])
            else ([e], rest)
          | [] => ([e], [])
        (UInt8.ofNat (digits.foldl (fun acc d => acc * 8 + (d.toNat - 48)) 0), r)
      else
        -- \C
        let cc : UInt8 :=
          if e == 0x61 then 7 else if e == 0x62 then 8 else if e == 0x66 then 12 else if e == 0x6e then 10
          else if e == 0x72 then 13 else if e == 0x74 then 9 else if e == 0x76 then 11 else e
        (cc, rest)

/-- js_decode.go:25 doJsDecode from offset 0 (before the first backslash nothing changes):
    output and "an escape was decoded". Fuel = number of loop iterations. -/
def jsDecodeF : Nat → Bytes → Bytes × Bool
  | 0, _ => ([], false)
  | _, [] => ([], false)
  | f + 1, b :: tl =>
    if b != 0x5c then
      let (o, c) := jsDecodeF f tl
      (b :: o, c)
    else
      match tl with
      | [] => ([b], false)                                   -- "not enough bytes": copied
      | e :: rest =>
        let (v, r) := jsEscape e rest
        let (o, _) := jsDecodeF f r
        (v :: o, true)

/-- js_decode.go:14 jsDecode -/
def jsDecode (x : Bytes) : Res :=
  if x.contains 0x5c then
    let (o, c) := jsDecodeF (x.length + 1) x
    ⟨o, c, false⟩
  else ⟨x, false, false⟩

/-- cmd_line.go:38 doCMDLine from offset 0: (output reversed accumulator handled by the caller) -/
def cmdLineAux : Bytes → Bool → Bytes → Bool → Bytes × Bool
  | [], _, acc, ch => (acc.reverse, ch)
  | a :: tl, space, acc, ch =>
    if a == 0x22 || a == 0x27 || a == 0x5c || a == 0x5e then cmdLineAux tl space acc true
    else if a == 0x20 || a == 0x2c || a == 0x3b || a == 0x09 || a == 0x0d || a == 0x0a then
      if !space then cmdLineAux tl true (0x20 :: acc) (ch || a != 0x20)
      else cmdLineAux tl true acc true
    else if a == 0x2f || a == 0x28 then
      if space then cmdLineAux tl false (a :: acc.tail) true
      else cmdLineAux tl false (a :: acc) ch
    else if 65 ≤ a && a ≤ 90 then cmdLineAux tl false ((a + 32) :: acc) true
    else cmdLineAux tl false (a :: acc) ch

/-- cmd_line.go:24 cmdLine -/
def cmdLine (x : Bytes) : Res :=
  let (o, c) := cmdLineAux x false [] false
  ⟨o, c, false⟩

/-- remove_comments_char.go:10 -/
def removeCommentsCharF : Nat → Bytes → Bytes × Bool
  | 0, _ => ([], false)
  | _, [] => ([], false)
  | f + 1, b :: tl =>
    match b, tl with
    | 0x2f, 0x2a :: r => let (o, _) := removeCommentsCharF f r; (o, true)                 -- /*
    | 0x2a, 0x2f :: r => let (o, _) := removeCommentsCharF f r; (o, true)                 -- */
    | 0x3c, 0x21 :: 0x2d :: 0x2d :: r => let (o, _) := removeCommentsCharF f r; (o, true) -- <!--
    | 0x2d, 0x2d :: 0x3e :: r => let (o, _) := removeCommentsCharF f r; (o, true)         -- -->
    | 0x2d, 0x2d :: r => let (o, _) := removeCommentsCharF f r; (o, true)                 -- --
    | 0x23, r => let (o, _) := removeCommentsCharF f r; (o, true)                         -- #
    | _, _ => let (o, c) := removeCommentsCharF f tl; (b :: o, c)

def removeCommentsChar (x : Bytes) : Res :=
  let (o, c) := removeCommentsCharF (x.length + 1) x
  ⟨o, c, false⟩

def isAsciiSpace (b : UInt8) : Bool := b == 0x20 || (9 ≤ b && b ≤ 13)

/-- compress_whitespace.go on ASCII input (the rune decoding of non-ASCII input is not modelled) -/
def compressWsAux : Bytes → Bool → Bytes × Bool
  | [], _ => ([], false)
  | b :: tl, inWs =>
    if isAsciiSpace b then
      if inWs then let (o, _) := compressWsAux tl true; (o, true)
      else let (o, c) := compressWsAux tl true; (0x20 :: o, c || b != 0x20)
    else let (o, c) := compressWsAux tl false; (b :: o, c)

def compressWhitespace (x : Bytes) : Res :=
  let (o, c) := compressWsAux x false
  ⟨o, c, false⟩

/-- remove_whitespace.go on ASCII input: `strings.Map` dropping `unicode.IsSpace`; the flag is the
    comparison of input and output -/
def removeWhitespace (x : Bytes) : Res :=
  let o := x.filter (fun b => !isAsciiSpace b)
  ⟨o, o != x, false⟩

end Coraza.Tf
