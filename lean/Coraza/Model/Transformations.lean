/-
  Executable models of internal/transformations/*.go (C14).
  Each model follows the Go body; anchors are given per definition.
  A transformation returns (output, changed, error) exactly like the Go signature
  `func(string) (string, bool, error)`.
-/
import Coraza.Base.Bytes
namespace Coraza.Tf
open Coraza

structure Res where
  out : Bytes
  changed : Bool
  err : Bool := false
deriving Repr, DecidableEq

/-- internal/strings/strings.go:61 ValidHex -/
def validHex (x : UInt8) : Bool :=
  (48 ≤ x && x ≤ 57) || (97 ≤ x && x ≤ 102) || (65 ≤ x && x ≤ 70)

/-- internal/strings/strings.go:66 X2c (UInt8 arithmetic wraps like Go's byte) -/
def x2c (a b : UInt8) : UInt8 :=
  let d1 : UInt8 := if a ≥ 65 then ((a &&& 0xdf) - 65) + 10 else a - 48
  let d2 : UInt8 := if b ≥ 65 then ((b &&& 0xdf) - 65) + 10 else b - 48
  d1 * 16 + d2

/-- url_decode.go:22 doURLDecode, started at offset 0 (the prefix before the first
    '%'/'+' contains neither, so decoding from 0 equals copying the prefix). -/
def doURLDecode : Bytes → Bytes
  | [] => []
  | b :: tl =>
    if b == 0x25 then
      match tl with
      | c1 :: c2 :: rest =>
        if validHex c1 && validHex c2 then x2c c1 c2 :: doURLDecode rest
        else b :: doURLDecode (c1 :: c2 :: rest)
      | [c1] => b :: doURLDecode [c1]
      | [] => [b]
    else if b == 0x2b then 0x20 :: doURLDecode tl
    else b :: doURLDecode tl

/-- url_decode.go:10 urlDecode -/
def urlDecode (x : Bytes) : Res :=
  if x.any (fun b => b == 0x25 || b == 0x2b) then ⟨doURLDecode x, true, false⟩
  else ⟨x, false, false⟩

def c2x (n : UInt8) : UInt8 := if n < 10 then 48 + n else 87 + n

/-- url_encode.go:25 the "unreserved" test -/
def urlSafe (cc : UInt8) : Bool :=
  cc == 42 || (48 ≤ cc && cc ≤ 57) || (65 ≤ cc && cc ≤ 90) || (97 ≤ cc && cc ≤ 122)

/-- url_encode.go:13 doURLEncode: output bytes -/
def urlEncodeBytes : Bytes → Bytes
  | [] => []
  | cc :: tl =>
    if cc == 0x20 then 0x2b :: urlEncodeBytes tl
    else if urlSafe cc then cc :: urlEncodeBytes tl
    else 0x25 :: c2x (cc >>> 4) :: c2x (cc &&& 0x0f) :: urlEncodeBytes tl

/-- url_encode.go:8 urlEncode; changed iff some byte was rewritten -/
def urlEncode (x : Bytes) : Res :=
  ⟨urlEncodeBytes x, x.any (fun cc => cc == 0x20 || !urlSafe cc), false⟩

/-- encoding/hex EncodeToString (lower-case) — hex_encode.go -/
def hexEncodeBytes : Bytes → Bytes
  | [] => []
  | b :: tl => c2x (b >>> 4) :: c2x (b &&& 0x0f) :: hexEncodeBytes tl

def hexEncode (x : Bytes) : Res := ⟨hexEncodeBytes x, true, false⟩

/-- encoding/hex fromHexChar -/
def fromHexChar (c : UInt8) : Option UInt8 :=
  if 48 ≤ c && c ≤ 57 then some (c - 48)
  else if 97 ≤ c && c ≤ 102 then some (c - 97 + 10)
  else if 65 ≤ c && c ≤ 70 then some (c - 65 + 10)
  else none

/-- encoding/hex DecodeString: error on odd length or any invalid digit. -/
def hexDecodeBytes : Bytes → Option Bytes
  | [] => some []
  | [_] => none
  | a :: b :: tl =>
    match fromHexChar a, fromHexChar b, hexDecodeBytes tl with
    | some x, some y, some r => some ((x * 16 + y) :: r)
    | _, _, _ => none

/-- hex_decode.go:12 hexDecode: on error returns ("", false, err) -/
def hexDecode (x : Bytes) : Res :=
  match hexDecodeBytes x with
  | some r => ⟨r, true, false⟩
  | none => ⟨[], false, true⟩

/-- remove_nulls.go -/
def removeNulls (x : Bytes) : Res :=
  let y := x.filter (· != 0)
  ⟨y, x.length != y.length, false⟩

/-- replace_nulls.go -/
def replaceNulls (x : Bytes) : Res :=
  let y := x.map (fun b => if b == 0 then 0x20 else b)
  ⟨y, x != y, false⟩

/-- trim.go:11 trimSpaces = " \t\n\r\f\v" -/
def isTrimSpace (b : UInt8) : Bool :=
  b == 0x20 || b == 0x09 || b == 0x0a || b == 0x0d || b == 0x0c || b == 0x0b

def trimLeftBytes (x : Bytes) : Bytes := x.dropWhile isTrimSpace
def trimRightBytes (x : Bytes) : Bytes := (x.reverse.dropWhile isTrimSpace).reverse

def trimLeft (x : Bytes) : Res := let y := trimLeftBytes x; ⟨y, x.length != y.length, false⟩
def trimRight (x : Bytes) : Res := let y := trimRightBytes x; ⟨y, x.length != y.length, false⟩
def trim (x : Bytes) : Res :=
  let y := trimRightBytes (trimLeftBytes x); ⟨y, x.length != y.length, false⟩

/-- decimal digits of a natural number, most significant first (strconv.Itoa for n ≥ 0) -/
def decDigits (n : Nat) : Bytes :=
  if h : n < 10 then [UInt8.ofNat (48 + n)]
  else decDigits (n / 10) ++ [UInt8.ofNat (48 + n % 10)]
decreasing_by omega

/-- length.go -/
def length (x : Bytes) : Res := ⟨decDigits x.length, true, false⟩

/-- none.go -/
def none (x : Bytes) : Res := ⟨x, false, false⟩

/-- lowercase.go / uppercase.go on ASCII-only input (strings.ToLower/ToUpper are
    byte-wise ASCII maps there); non-ASCII input is delegated (not modelled). -/
def lowercaseAscii (x : Bytes) : Res := let y := x.map asciiLower; ⟨y, x != y, false⟩
def uppercaseAscii (x : Bytes) : Res := let y := x.map asciiUpper; ⟨y, x != y, false⟩

end Coraza.Tf
