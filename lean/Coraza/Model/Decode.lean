/-
  Request data decoding (C03): internal/url/url.go (ParseQuery, queryUnescape, hexDigitToByte),
  internal/cookies/cookies.go (ParseCookies), the '#' cut of ProcessURI (transaction.go:828).
  Go maps are modelled as the ordered list of (key, value) pairs in order of appearance;
  grouping by key is what the collections do afterwards (CMap.add per value).
-/
import Coraza.Base.Bytes
namespace Coraza.Decode
open Coraza

/-- url.go:79 hexDigitToByte -/
def hexDigitToByte (d : UInt8) : Option UInt8 :=
  if 48 ≤ d && d ≤ 57 then some (d - 48)
  else if 97 ≤ d && d ≤ 102 then some (d - 97 + 10)
  else if 65 ≤ d && d ≤ 70 then some (d - 65 + 10)
  else none

/-- url.go:45 queryUnescape: '+' → ' ', %XX → byte when two hex digits follow, else raw '%' -/
def queryUnescape : Bytes → Bytes
  | [] => []
  | c :: tl =>
    if c == 0x2b then 0x20 :: queryUnescape tl
    else if c == 0x25 then
      match tl with
      | h :: l :: rest =>
        match hexDigitToByte h, hexDigitToByte l with
        | some hi, some lo => (hi <<< 4 ||| lo) :: queryUnescape rest
        | _, _ => c :: queryUnescape (h :: l :: rest)
      | [x] => c :: queryUnescape [x]
      | [] => [c]
    else c :: queryUnescape tl

/-- cut at the first occurrence of `sep`: (before, after) or none -/
def cutAt (sep : UInt8) : Bytes → Option (Bytes × Bytes)
  | [] => none
  | b :: tl =>
    if b == sep then some ([], tl)
    else match cutAt sep tl with
      | some (a, r) => some (b :: a, r)
      | none => none

/-- the segments of url.go:19 doParseQuery's loop: split on the separator, empty segments skipped.
    `fuel` bounds the loop (the remaining query strictly shrinks). -/
def segments (sep : UInt8) : Nat → Bytes → List Bytes
  | 0, _ => []
  | _ + 1, [] => []
  | f + 1, q =>
    match cutAt sep q with
    | some (k, rest) => if k.isEmpty then segments sep f rest else k :: segments sep f rest
    | none => [q]

/-- one segment → (key, value): cut at the first '=', both sides unescaped once -/
def pairOf (seg : Bytes) : Bytes × Bytes :=
  match cutAt 0x3d seg with
  | some (k, v) => (queryUnescape k, queryUnescape v)
  | none => (queryUnescape seg, [])

/-- url.go:15 ParseQuery as the ordered list of pairs -/
def parseQuery (q : Bytes) (sep : UInt8 := 0x26) : List (Bytes × Bytes) :=
  (segments sep (q.length + 1) q).map pairOf

/-- transaction.go:828: the fragment is cut before parsing -/
def cutFragment (uri : Bytes) : Bytes :=
  match cutAt 0x23 uri with
  | some (a, _) => a
  | none => uri

/-! ### cookies (cookies.go:14) -/

/-- net/textproto.TrimString: isASCIISpace = space, tab, LF, CR -/
def isWS (b : UInt8) : Bool := b == 0x20 || b == 0x09 || b == 0x0a || b == 0x0d
def trimWS (s : Bytes) : Bytes := ((s.dropWhile isWS).reverse.dropWhile isWS).reverse

def cookieParts : Nat → Bytes → List Bytes
  | 0, _ => []
  | _ + 1, [] => []
  | f + 1, s =>
    match cutAt 0x3b s with
    | some (p, rest) => p :: cookieParts f rest
    | none => [s]

def cookiePair (part : Bytes) : Option (Bytes × Bytes) :=
  let part := trimWS part
  if part.isEmpty then none else
  let (name, val) := match cutAt 0x3d part with
    | some (n, v) => (n, v)
    | none => (part, [])
  let name := trimWS name
  if name.isEmpty then none else some (name, val)

def parseCookies (raw : Bytes) : List (Bytes × Bytes) :=
  let raw := trimWS raw
  (cookieParts (raw.length + 1) raw).filterMap cookiePair

/-! ### independent encoders (the specification side) -/

def isAlnum (b : UInt8) : Bool := (48 ≤ b && b ≤ 57) || (65 ≤ b && b ≤ 90) || (97 ≤ b && b ≤ 122)
def hexUp (n : UInt8) : UInt8 := if n < 10 then 48 + n else 55 + n

/-- percent-encode every byte that is not a letter or digit -/
def pctEnc : Bytes → Bytes
  | [] => []
  | b :: tl => if isAlnum b then b :: pctEnc tl else 0x25 :: hexUp (b >>> 4) :: hexUp (b &&& 0x0f) :: pctEnc tl

def encPair (p : Bytes × Bytes) : Bytes := pctEnc p.1 ++ [0x3d] ++ pctEnc p.2

def encQuery : List (Bytes × Bytes) → Bytes
  | [] => []
  | [p] => encPair p
  | p :: ps => encPair p ++ [0x26] ++ encQuery ps

end Coraza.Decode
