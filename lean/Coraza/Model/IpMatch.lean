/-
  @ipMatch (internal/operators/ip_match.go) over Go's net / net/netip text forms:
  netip.ParseAddr (parseIPv4Fields, parseIPv6), net.ParseCIDR, net.ParseIP, net.IPNet.Contains
  (with To4 canonicalisation: an IPv4-mapped IPv6 address is an IPv4 address).
-/
import Coraza.Model.Operators
namespace Coraza.Op
open Coraza

def isDig (c : UInt8) : Bool := 48 ≤ c && c ≤ 57

/-- netip.parseIPv4Fields: state = (val, pos, digLen, previous byte was '.', first), fields reversed -/
def v4Aux : Bytes → (val pos digLen : Nat) → (first prevDot : Bool) → List UInt8 → Option (List UInt8)
  | [], val, pos, _, _, prevDot, acc =>
    -- a trailing '.' was rejected when it was read (i == len-1); pos < 3 → too short
    if prevDot then none else if pos < 3 then none else some ((val.toUInt8 :: acc).reverse)
  | c :: rest, val, pos, digLen, first, prevDot, acc =>
    if isDig c then
      if digLen == 1 && val == 0 then none
      else
        let v := val * 10 + (c.toNat - 48)
        if v > 255 then none else v4Aux rest v pos (digLen + 1) false false acc
    else if c == 0x2e then
      if first || rest.isEmpty || prevDot then none
      else if pos == 3 then none
      else v4Aux rest 0 (pos + 1) 0 false true (val.toUInt8 :: acc)
    else none

def parseIPv4 (s : Bytes) : Option (List UInt8) := v4Aux s 0 0 0 true false []

def hexVal (c : UInt8) : Option Nat :=
  if 48 ≤ c && c ≤ 57 then some (c.toNat - 48)
  else if 97 ≤ c && c ≤ 102 then some (c.toNat - 87)
  else if 65 ≤ c && c ≤ 70 then some (c.toNat - 55)
  else none

/-- up to 4 hex digits at the head: (value, digits read, rest); `none` = more than 4 digits -/
def hexGroup : Bytes → Nat → Nat → Option (Nat × Nat × Bytes)
  | [], acc, n => some (acc, n, [])
  | c :: rest, acc, n =>
    match hexVal c with
    | some d => if n ≥ 4 then none else hexGroup rest (acc * 16 + d) (n + 1)
    | none => some (acc, n, c :: rest)

/-- the loop of netip.parseIPv6 after the optional leading "::"; `ip` = bytes written so far
    (reversed), `ell` = position of the ellipsis -/
def v6Aux : Nat → Bytes → List UInt8 → Option Nat → Option (List UInt8 × Option Nat)
  | 0, _, _, _ => none
  | fuel + 1, s, ip, ell =>
    if ip.length ≥ 16 then (if s.isEmpty then some (ip, ell) else none)
    else
      match hexGroup s 0 0 with
      | none => none
      | some (acc, off, rest) =>
        if off == 0 then none
        else if rest.head? == some 0x2e then
          -- trailing IPv4: must replace the final two fields unless an ellipsis came before
          if ell.isNone && ip.length != 12 then none
          else if ip.length + 4 > 16 then none
          else match parseIPv4 s with
            | some f => some (f.reverse ++ ip, ell)
            | none => none
        else
          let ip := (acc % 256).toUInt8 :: (acc / 256).toUInt8 :: ip
          match rest with
          | [] => some (ip, ell)
          | c :: r1 =>
            if c != 0x3a then none
            else match r1 with
              | [] => none                                   -- colon must be followed by more
              | 0x3a :: r2 =>
                if ell.isSome then none
                else if r2.isEmpty then some (ip, some ip.length)
                else v6Aux fuel r2 ip (some ip.length)
              | _ => v6Aux fuel r1 ip ell

def parseIPv6 (s : Bytes) : Option (List UInt8) :=
  if s.contains 0x25 then none        -- a zone: ParseIP and ParseCIDR reject it
  else
    let (s1, ell0, unspecified) := match s with
      | 0x3a :: 0x3a :: t => (t, some 0, t.isEmpty)
      | _ => (s, none, false)
    if unspecified then some (List.replicate 16 0)
    else match v6Aux 20 s1 [] ell0 with
      | none => none
      | some (ipRev, ell) =>
        let ip := ipRev.reverse
        if ip.length < 16 then
          match ell with
          | none => none
          | some e => some (ip.take e ++ List.replicate (16 - ip.length) 0 ++ ip.drop e)
        else if ell.isSome then none
        else some ip

/-- netip.ParseAddr, as (is IPv4 text, 16-byte form) -/
def parseAddr (s : Bytes) : Option (Bool × List UInt8) :=
  match s.find? (fun c => c == 0x2e || c == 0x3a || c == 0x25) with
  | some 0x2e => (parseIPv4 s).map (fun f => (true, List.replicate 10 0 ++ [0xff, 0xff] ++ f))
  | some 0x3a => (parseIPv6 s).map (fun b => (false, b))
  | _ => none

/-- IP.To4 on a 16-byte address -/
def to4 (ip : List UInt8) : Option (List UInt8) :=
  if ip.length == 16 && (ip.take 10).all (· == 0) && ip[10]? == some 0xff && ip[11]? == some 0xff then some (ip.drop 12) else none

/-- net.CIDRMask(ones, bits) -/
def cidrMask (ones bits : Nat) : List UInt8 :=
  (List.range (bits / 8)).map (fun i =>
    let k := ones - 8 * i
    if ones ≤ 8 * i then 0 else if k ≥ 8 then 0xff else (256 - 2 ^ (8 - k)).toUInt8)

/-- net.dtoi on the whole mask text: digits only, below 0xFFFFFF -/
def dtoiAll : Bytes → Nat → Option Nat
  | [], n => some n
  | c :: rest, n => if isDig c then (let v := n * 10 + (c.toNat - 48); if v ≥ 0xFFFFFF then none else dtoiAll rest v) else none

structure IPNet where
  ip : List UInt8      -- 4 or 16 bytes, already masked
  mask : List UInt8    -- 4 or 16 bytes
deriving Repr, DecidableEq

def andBytes (a m : List UInt8) : List UInt8 := List.zipWith (· &&& ·) a m

/-- net.ParseCIDR -/
def parseCIDR (s : Bytes) : Option IPNet :=
  match s.idxOf? 0x2f with
  | none => none
  | some i =>
    let addr := s.take i
    let mask := s.drop (i + 1)
    match parseAddr addr with
    | none => none
    | some (is4, ip16) =>
      let bits := if is4 then 32 else 128
      if mask.isEmpty then none
      else match dtoiAll mask 0 with
        | none => none
        | some n =>
          if n > bits then none
          else
            let m := cidrMask n bits
            -- IP.Mask: a 4-byte mask on a v4-mapped address works on its last 4 bytes
            let ip := if is4 then andBytes (ip16.drop 12) m else andBytes ip16 m
            some { ip := ip, mask := m }

/-- IPNet.Contains(ParseIP(value)) -/
def netContains (n : IPNet) (value : Bytes) : Bool :=
  -- networkNumberAndMask
  let nn := match (if n.ip.length == 4 then some n.ip else to4 n.ip) with
    | some x => x
    | none => n.ip
  let m := if n.mask.length == 16 && nn.length == 4 then n.mask.drop 12 else n.mask
  match parseAddr value with
  | none => false
  | some (_, ip16) =>
    let ip := match to4 ip16 with | some x => x | none => ip16
    ip.length == nn.length && andBytes nn m == andBytes ip m

def containsByte (s : Bytes) (c : UInt8) : Bool := s.contains c

/-- newIPMatch: the list of networks of the argument (entries that do not parse are skipped) -/
def ipMatchNets (arg : Bytes) : List IPNet :=
  (splitOn 0x2c arg).filterMap (fun sb =>
    let sb := trimSpaceAscii sb
    if sb.isEmpty then none
    else
      let sb := if containsByte sb 0x3a && !containsByte sb 0x2f then sb ++ [0x2f, 0x31, 0x32, 0x38]
                else if containsByte sb 0x2e && !containsByte sb 0x2f then sb ++ [0x2f, 0x33, 0x32]
                else sb
      parseCIDR sb)

def ipMatch (arg v : Bytes) : Bool := (ipMatchNets arg).any (fun n => netContains n v)

end Coraza.Op
